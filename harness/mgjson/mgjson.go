// Package mgjson is the single JSON encoding shared between the TLA+ specification
// (spec/Values.tla, spec/Semantics.tla) and the real Mangle code.
//
// Values are tagged arrays: ["n",1] ["s","x"] ["c","/a"] ["y","bytes"] ["f","1.5"]
// ["t",i] ["d",i] ["pair",a,b] ["list",[..]] ["map",[[k,v]..]] ["struct",[[k,v]..]].
// Terms add ["v","X"] and ["ap","fn:plus",[..]].
// Atoms are {"p":"pred","a":[terms]}, literals ["pos",atom] ["neg",atom] ["eq",l,r]
// ["ne",l,r] ["lt"|"le"|"gt"|"ge",l,r] ["bi",":match_pair",[terms]], clauses
// {"h":atom,"b":[literals],"t":transform} with transform ["none"] | ["let",[[x,term]..]]
// | ["do",[keyvars],[[x,fn,[argterms]]..]].
package mgjson

import (
	"bytes"
	"encoding/json"
	"fmt"
	"math"
	"sort"
	"strconv"
	"strings"

	"codeberg.org/TauCeti/mangle-go/ast"
)

// TimeBase/TimeUnit map the abstract timeline index i of ["t",i] to base+i*unit nanoseconds;
// durations ["d",i] map to i*unit.
var (
	TimeBase int64 = 0
	TimeUnit int64 = 1
)

// RatioFloats makes FromConst render a float that is the correctly rounded quotient of two
// small integers as ["ratio",p,q] in lowest terms (q > 0), the form the specification uses
// for averages (TLA+ has no reals).
var RatioFloats = false

func asRatio(f float64) (int64, int64, bool) {
	for q := int64(1); q <= 64; q++ {
		p := math.Round(f * float64(q))
		if math.Abs(p) < 1e9 && float64(p)/float64(q) == f {
			return int64(p), q, true
		}
	}
	return 0, 0, false
}

// Atom is a predicate applied to terms.
type Atom struct {
	P string `json:"p"`
	A []any  `json:"a"`
}

// Clause is a rule or fact.
type Clause struct {
	H Atom  `json:"h"`
	B []any `json:"b"`
	T []any `json:"t"`
	// Ht is an optional head annotation: ["eternal"] prints @[_], ["eternal2"] prints @[_, _]
	Ht []any `json:"ht,omitempty"`
	// Decl: not a clause but the declaration "Decl <head> descr [extensional()]." of the head's predicate
	Decl bool `json:"decl,omitempty"`
}

// Decode parses JSON keeping integers exact.
func Decode(data []byte, v any) error {
	d := json.NewDecoder(bytes.NewReader(data))
	d.UseNumber()
	return d.Decode(v)
}

// Int extracts an integer from a decoded JSON number.
func Int(x any) int64 {
	switch n := x.(type) {
	case json.Number:
		i, err := n.Int64()
		if err != nil {
			f, _ := n.Float64()
			return int64(f)
		}
		return i
	case float64:
		return int64(n)
	case int:
		return int64(n)
	case int64:
		return n
	}
	panic(fmt.Sprintf("mgjson: not a number: %#v", x))
}

func arr(x any) []any {
	a, ok := x.([]any)
	if !ok {
		panic(fmt.Sprintf("mgjson: not an array: %#v", x))
	}
	return a
}

// AtomOf converts a decoded JSON object (map) or Atom into Atom.
func AtomOf(x any) Atom {
	switch a := x.(type) {
	case Atom:
		return a
	case map[string]any:
		args, _ := a["a"].([]any)
		return Atom{P: a["p"].(string), A: args}
	}
	panic(fmt.Sprintf("mgjson: not an atom: %#v", x))
}

// ---------------------------------------------------------------- JSON -> ast

// Const converts a value to an ast.Constant.
func Const(x any) ast.Constant {
	t := arr(x)
	switch t[0].(string) {
	case "n":
		return ast.Number(Int(t[1]))
	case "bign":
		n, _ := strconv.ParseInt(t[1].(string), 10, 64)
		return ast.Number(n)
	case "w":
		return ast.Number(RingToInt64(Int(t[1]), Int(t[2])))
	case "s":
		return ast.String(t[1].(string))
	case "c":
		c, err := ast.Name(t[1].(string))
		if err != nil {
			panic(err)
		}
		return c
	case "y":
		return ast.Bytes([]byte(t[1].(string)))
	case "f":
		f, err := strconv.ParseFloat(t[1].(string), 64)
		if err != nil {
			panic(err)
		}
		return ast.Float64(f)
	case "t":
		return ast.Time(TimeBase + Int(t[1])*TimeUnit)
	case "d":
		return ast.Duration(Int(t[1]) * TimeUnit)
	case "tw": // wide timeline: index i is the instant i * 2^62 ns
		return ast.Time(Int(t[1]) * (1 << 62))
	case "dw":
		return ast.Duration(Int(t[1]) * (1 << 62))
	case "pair":
		a, b := Const(t[1]), Const(t[2])
		return ast.Pair(&a, &b)
	case "list":
		var cs []ast.Constant
		for _, e := range arr(t[1]) {
			cs = append(cs, Const(e))
		}
		return ast.List(cs)
	case "map", "struct":
		m := make(map[*ast.Constant]*ast.Constant)
		for _, e := range arr(t[1]) {
			kv := arr(e)
			k, v := Const(kv[0]), Const(kv[1])
			m[&k] = &v
		}
		if t[0].(string) == "map" {
			return *ast.Map(m)
		}
		return *ast.Struct(m)
	}
	panic(fmt.Sprintf("mgjson: unknown value tag %v", t[0]))
}

// Term converts a term to an ast.BaseTerm.
func Term(x any) ast.BaseTerm {
	t := arr(x)
	switch t[0].(string) {
	case "v":
		return ast.Variable{Symbol: t[1].(string)}
	case "ap":
		var args []ast.BaseTerm
		for _, e := range arr(t[2]) {
			args = append(args, Term(e))
		}
		return ast.ApplyFn{Function: ast.FunctionSym{Symbol: t[1].(string), Arity: len(args)}, Args: args}
	}
	return Const(x)
}

// ASTAtom converts an Atom to ast.Atom.
func ASTAtom(a Atom) ast.Atom {
	args := make([]ast.BaseTerm, len(a.A))
	for i, e := range a.A {
		args[i] = Term(e)
	}
	return ast.Atom{Predicate: ast.PredicateSym{Symbol: a.P, Arity: len(args)}, Args: args}
}

// RingToInt64 reads the symbolic int64 of spec/Ring64.tla: a*2^63 + b (mod 2^64), a in {0,1}, b small.
func RingToInt64(a, b int64) int64 {
	if a == 0 {
		return b
	}
	if b >= 0 {
		return math.MinInt64 + b
	}
	return math.MaxInt64 + (b + 1) // = MaxInt64 - (-b - 1)
}

// RingOf is the inverse on the representable zones; other numbers are ["mid", text].
func RingOf(n int64) any {
	const k = 1 << 20
	switch {
	case n >= -k && n <= k:
		return []any{"w", 0, n}
	case n >= math.MaxInt64-k:
		return []any{"w", 1, (n - math.MaxInt64) - 1}
	case n <= math.MinInt64+k:
		return []any{"w", 1, n - math.MinInt64}
	}
	return []any{"mid", strconv.FormatInt(n, 10)}
}

// ---------------------------------------------------------------- ast -> JSON

// FromConst converts an ast.Constant to its tagged-array form.
func FromConst(c ast.Constant) any {
	switch c.Type {
	case ast.NumberType:
		if c.NumValue > math.MaxInt32 || c.NumValue < math.MinInt32 {
			// TLC integers are 32 bit: a number no model value can equal travels as text
			return []any{"bign", strconv.FormatInt(c.NumValue, 10)}
		}
		return []any{"n", c.NumValue}
	case ast.StringType:
		return []any{"s", c.Symbol}
	case ast.NameType:
		return []any{"c", c.Symbol}
	case ast.BytesType:
		return []any{"y", c.Symbol}
	case ast.Float64Type:
		f, _ := c.Float64Value()
		if RatioFloats {
			if p, q, ok := asRatio(f); ok {
				return []any{"ratio", p, q}
			}
		}
		return []any{"f", strconv.FormatFloat(f, 'g', -1, 64)}
	case ast.TimeType:
		n, _ := c.TimeValue()
		if TimeUnit != 0 && (n-TimeBase)%TimeUnit == 0 {
			return []any{"t", (n - TimeBase) / TimeUnit}
		}
		return []any{"traw", strconv.FormatInt(n, 10)}
	case ast.DurationType:
		n, _ := c.DurationValue()
		if TimeUnit != 0 && n%TimeUnit == 0 {
			return []any{"d", n / TimeUnit}
		}
		return []any{"draw", strconv.FormatInt(n, 10)}
	case ast.PairShape:
		a, b, _ := c.PairValue()
		return []any{"pair", FromConst(a), FromConst(b)}
	case ast.ListShape:
		out := []any{}
		c.ListValues(func(e ast.Constant) error { out = append(out, FromConst(e)); return nil }, func() error { return nil })
		return []any{"list", out}
	case ast.MapShape:
		out := []any{}
		c.MapValues(func(k, v ast.Constant) error { out = append(out, []any{FromConst(k), FromConst(v)}); return nil }, func() error { return nil })
		sortEntries(out)
		return []any{"map", out}
	case ast.StructShape:
		out := []any{}
		c.StructValues(func(k, v ast.Constant) error { out = append(out, []any{FromConst(k), FromConst(v)}); return nil }, func() error { return nil })
		sortEntries(out)
		return []any{"struct", out}
	}
	return []any{"unknown", c.String()}
}

func sortEntries(es []any) {
	sort.SliceStable(es, func(i, j int) bool { return Key(es[i]) < Key(es[j]) })
}

// Key returns a canonical string for any encodable value (used for sorting and set equality).
func Key(x any) string {
	b, err := json.Marshal(x)
	if err != nil {
		panic(err)
	}
	return string(b)
}

// FromAtom converts a ground ast.Atom; non-constant arguments are reported as ["nonground",text].
func FromAtom(a ast.Atom) Atom {
	out := Atom{P: a.Predicate.Symbol, A: make([]any, len(a.Args))}
	for i, arg := range a.Args {
		if c, ok := arg.(ast.Constant); ok {
			out.A[i] = FromConst(c)
		} else {
			out.A[i] = []any{"nonground", arg.String()}
		}
	}
	return out
}

// ---------------------------------------------------------------- source text

// Quote renders a Go string as a Mangle double-quoted string literal.
func Quote(s string) string {
	var sb strings.Builder
	sb.WriteByte('"')
	for _, r := range s {
		switch r {
		case '"':
			sb.WriteString(`\"`)
		case '\\':
			sb.WriteString(`\\`)
		case '\n':
			sb.WriteString(`\n`)
		case '\t':
			sb.WriteString(`\t`)
		default:
			sb.WriteRune(r)
		}
	}
	sb.WriteByte('"')
	return sb.String()
}

// TermText renders a term in Mangle source syntax.
func TermText(x any) string {
	t := arr(x)
	switch t[0].(string) {
	case "v":
		return t[1].(string)
	case "ap":
		var parts []string
		for _, e := range arr(t[2]) {
			parts = append(parts, TermText(e))
		}
		return t[1].(string) + "(" + strings.Join(parts, ", ") + ")"
	case "n":
		return strconv.FormatInt(Int(t[1]), 10)
	case "bign":
		return t[1].(string)
	case "s":
		return Quote(t[1].(string))
	case "c":
		return t[1].(string)
	case "y":
		return "b" + Quote(t[1].(string))
	case "f":
		s := t[1].(string)
		if !strings.ContainsAny(s, ".eE") {
			s += ".0"
		}
		return s
	case "t":
		return fmt.Sprintf("fn:time:from_unix_nanos(%d)", TimeBase+Int(t[1])*TimeUnit)
	case "d":
		return fmt.Sprintf("fn:duration:from_nanos(%d)", Int(t[1])*TimeUnit)
	case "pair":
		return "fn:pair(" + TermText(t[1]) + ", " + TermText(t[2]) + ")"
	case "list":
		var parts []string
		for _, e := range arr(t[1]) {
			parts = append(parts, TermText(e))
		}
		return "[" + strings.Join(parts, ", ") + "]"
	case "map":
		es := arr(t[1])
		if len(es) == 0 {
			return "fn:map()"
		}
		var parts []string
		for _, e := range es {
			kv := arr(e)
			parts = append(parts, TermText(kv[0])+": "+TermText(kv[1]))
		}
		return "[" + strings.Join(parts, ", ") + "]"
	case "struct":
		var parts []string
		for _, e := range arr(t[1]) {
			kv := arr(e)
			parts = append(parts, TermText(kv[0])+": "+TermText(kv[1]))
		}
		return "{" + strings.Join(parts, ", ") + "}"
	}
	panic(fmt.Sprintf("mgjson: cannot print %v", x))
}

// AtomText renders an atom.
func AtomText(a Atom) string {
	parts := make([]string, len(a.A))
	for i, e := range a.A {
		parts[i] = TermText(e)
	}
	return a.P + "(" + strings.Join(parts, ", ") + ")"
}

var cmpSym = map[string]string{"eq": "=", "ne": "!=", "lt": "<", "le": "<=", "gt": ">", "ge": ">="}

// LitText renders a body literal.
func LitText(x any) string {
	l := arr(x)
	switch k := l[0].(string); k {
	case "pos":
		return AtomText(AtomOf(l[1]))
	case "neg":
		return "!" + AtomText(AtomOf(l[1]))
	case "bi":
		var parts []string
		for _, e := range arr(l[2]) {
			parts = append(parts, TermText(e))
		}
		return l[1].(string) + "(" + strings.Join(parts, ", ") + ")"
	default:
		return TermText(l[1]) + " " + cmpSym[k] + " " + TermText(l[2])
	}
}

// TransformText renders the transform part (including the leading " |> "), or "".
func TransformText(t []any) string {
	if len(t) == 0 {
		return ""
	}
	switch t[0].(string) {
	case "none":
		return ""
	case "let":
		var parts []string
		for _, s := range arr(t[1]) {
			st := arr(s)
			parts = append(parts, "let "+st[0].(string)+" = "+TermText(st[1]))
		}
		return " |> " + strings.Join(parts, ", ")
	case "do":
		var keys []string
		for _, k := range arr(t[1]) {
			keys = append(keys, k.(string))
		}
		parts := []string{"do fn:group_by(" + strings.Join(keys, ", ") + ")"}
		for _, s := range arr(t[2]) {
			st := arr(s)
			var args []string
			for _, a := range arr(st[2]) {
				args = append(args, TermText(a))
			}
			parts = append(parts, "let "+st[0].(string)+" = "+st[1].(string)+"("+strings.Join(args, ", ")+")")
		}
		return " |> " + strings.Join(parts, ", ")
	}
	panic("mgjson: bad transform")
}

// ClauseText renders a clause (with final period).
func ClauseText(c Clause) string {
	if c.Decl {
		return "Decl " + AtomText(c.H) + " descr [extensional()]."
	}
	s := AtomText(c.H)
	if len(c.Ht) > 0 {
		switch c.Ht[0].(string) {
		case "eternal":
			s += "@[_]"
		case "eternal2":
			s += "@[_, _]"
		}
	}
	if len(c.B) > 0 {
		parts := make([]string, len(c.B))
		for i, l := range c.B {
			parts[i] = LitText(l)
		}
		s += " :- " + strings.Join(parts, ", ")
	}
	return s + TransformText(c.T) + "."
}

// FactSetKey canonicalises a list of atoms into a sorted list of keys without duplicates.
func FactSetKey(atoms []Atom) []string {
	seen := map[string]bool{}
	var keys []string
	for _, a := range atoms {
		k := Key(a)
		if !seen[k] {
			seen[k] = true
			keys = append(keys, k)
		}
	}
	sort.Strings(keys)
	return keys
}

// ---------------------------------------------------------------- ast clause -> JSON

// FromTerm converts an ast.BaseTerm (constant, variable, function application).
func FromTerm(t ast.BaseTerm) any {
	switch x := t.(type) {
	case ast.Constant:
		return FromConst(x)
	case ast.Variable:
		return []any{"v", x.Symbol}
	case ast.ApplyFn:
		args := make([]any, len(x.Args))
		for i, a := range x.Args {
			args[i] = FromTerm(a)
		}
		return []any{"ap", x.Function.Symbol, args}
	}
	return []any{"unknown", fmt.Sprint(t)}
}

func fromAtomTerms(a ast.Atom) Atom {
	out := Atom{P: a.Predicate.Symbol, A: make([]any, len(a.Args))}
	for i, arg := range a.Args {
		out.A[i] = FromTerm(arg)
	}
	return out
}

var cmpKind = map[string]string{":lt": "lt", ":le": "le", ":gt": "gt", ":ge": "ge"}

// FromClause converts an analysed ast.Clause back to the JSON clause form (transforms are not converted).
func FromClause(c ast.Clause) Clause {
	out := Clause{H: fromAtomTerms(c.Head), B: []any{}, T: []any{"none"}}
	if c.Transform != nil {
		out.T = []any{"transform", c.Transform.String()}
	}
	for _, p := range c.Premises {
		switch x := p.(type) {
		case ast.Atom:
			if k, ok := cmpKind[x.Predicate.Symbol]; ok && len(x.Args) == 2 {
				out.B = append(out.B, []any{k, FromTerm(x.Args[0]), FromTerm(x.Args[1])})
			} else if strings.HasPrefix(x.Predicate.Symbol, ":") {
				args := make([]any, len(x.Args))
				for i, a := range x.Args {
					args[i] = FromTerm(a)
				}
				out.B = append(out.B, []any{"bi", x.Predicate.Symbol, args})
			} else {
				out.B = append(out.B, []any{"pos", fromAtomTerms(x)})
			}
		case ast.NegAtom:
			out.B = append(out.B, []any{"neg", fromAtomTerms(x.Atom)})
		case ast.Eq:
			out.B = append(out.B, []any{"eq", FromTerm(x.Left), FromTerm(x.Right)})
		case ast.Ineq:
			out.B = append(out.B, []any{"ne", FromTerm(x.Left), FromTerm(x.Right)})
		default:
			out.B = append(out.B, []any{"other", fmt.Sprint(p)})
		}
	}
	return out
}
