package main

import (
	"runtime"
	"sync"

	"verif/harness/mgjson"
)

func jsonDecode(b []byte, v any) error { return mgjson.Decode(b, v) }

// parallelMap applies fn to every input line on a worker pool and writes results in input order.
func parallelMap(in, out string, workers int, fn func(line []byte) (any, error)) error {
	if workers <= 0 {
		workers = runtime.NumCPU()
	}
	w, err := newLineWriter(out)
	if err != nil {
		return err
	}
	defer w.close()
	type job struct {
		seq  int
		line []byte
	}
	jobs := make(chan job, 256)
	results := map[int]any{}
	var mu sync.Mutex
	var firstErr error
	next := 0
	flush := func() {
		for {
			r, ok := results[next]
			if !ok {
				return
			}
			w.write(r)
			delete(results, next)
			next++
		}
	}
	var wg sync.WaitGroup
	for i := 0; i < workers; i++ {
		wg.Add(1)
		go func() {
			defer wg.Done()
			for j := range jobs {
				r, err := fn(j.line)
				mu.Lock()
				if err != nil && firstErr == nil {
					firstErr = err
				}
				results[j.seq] = r
				flush()
				mu.Unlock()
			}
		}()
	}
	seq := 0
	rerr := readLines(in, func(line []byte) error {
		jobs <- job{seq, line}
		seq++
		return nil
	})
	close(jobs)
	wg.Wait()
	mu.Lock()
	flush()
	mu.Unlock()
	if rerr != nil {
		return rerr
	}
	return firstErr
}

// parallelMapMulti is parallelMap for functions that return several output lines per input line.
func parallelMapMulti(in, out string, workers int, fn func(line []byte) ([]any, error)) error {
	type multi struct{ items []any }
	w, err := newLineWriter(out)
	if err != nil {
		return err
	}
	defer w.close()
	if workers <= 0 {
		workers = runtime.NumCPU()
	}
	type job struct {
		seq  int
		line []byte
	}
	jobs := make(chan job, 256)
	results := map[int][]any{}
	var mu sync.Mutex
	var firstErr error
	next := 0
	flush := func() {
		for {
			r, ok := results[next]
			if !ok {
				return
			}
			for _, it := range r {
				w.write(it)
			}
			delete(results, next)
			next++
		}
	}
	var wg sync.WaitGroup
	for i := 0; i < workers; i++ {
		wg.Add(1)
		go func() {
			defer wg.Done()
			for j := range jobs {
				r, err := fn(j.line)
				mu.Lock()
				if err != nil && firstErr == nil {
					firstErr = err
				}
				if r == nil {
					r = []any{}
				}
				results[j.seq] = r
				flush()
				mu.Unlock()
			}
		}()
	}
	seq := 0
	rerr := readLines(in, func(line []byte) error {
		jobs <- job{seq, line}
		seq++
		return nil
	})
	close(jobs)
	wg.Wait()
	mu.Lock()
	flush()
	mu.Unlock()
	if rerr != nil {
		return rerr
	}
	return firstErr
}
