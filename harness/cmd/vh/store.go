package main

import (
	"fmt"
	"math/rand"
	"sort"

	"codeberg.org/TauCeti/mangle-go/ast"
	"codeberg.org/TauCeti/mangle-go/factstore"
	"verif/harness/mgjson"
)

// StoreOp is one operation of a history (spec/StoreHist.tla, spec/Trace_FactStore.tla).
type StoreOp struct {
	Ev   string        `json:"ev"`
	A    *mgjson.Atom  `json:"a,omitempty"`
	Pat  *mgjson.Atom  `json:"pat,omitempty"`
	From []mgjson.Atom `json:"from,omitempty"`
}

type StoreHistory struct {
	ID  any       `json:"id"`
	Ops []StoreOp `json:"ops"`
}

// storeSetup describes one store under test: how to build it and what the spec may assume.
type storeSetup struct {
	kind      string
	exact     bool // EstimateFactCount is exact
	removable bool
	base      []mgjson.Atom // read-only lower layer (wrappers)
}

var storeSetups = []storeSetup{
	{kind: "simple", exact: true, removable: true},
	{kind: "indexed", exact: true, removable: true},
	{kind: "multi", exact: true, removable: true},
	{kind: "array", exact: true, removable: true},
	{kind: "concurrent", exact: true, removable: true},
	{kind: "merged", exact: false, removable: true},
	{kind: "teeing", exact: false, removable: true},
	{kind: "tadapter", exact: false, removable: false},
}

// wrapper base layers: disjoint from / overlapping with what histories add
func baseLayers() [][]mgjson.Atom {
	p1 := mgjson.Atom{P: "p", A: []any{[]any{"n", 1}}}
	p12 := mgjson.Atom{P: "p", A: []any{[]any{"n", 1}, []any{"n", 2}}}
	q9 := mgjson.Atom{P: "q", A: []any{[]any{"n", 9}}}
	return [][]mgjson.Atom{{}, {p1}, {p12, q9}}
}

func buildStore(s storeSetup) (factstore.FactStore, error) {
	add := func(fs factstore.FactStore) {
		for _, a := range s.base {
			fs.Add(mgjson.ASTAtom(a))
		}
	}
	switch s.kind {
	case "simple", "indexed", "multi", "array":
		return newStore(s.kind), nil
	case "concurrent":
		return factstore.NewConcurrentFactStore(factstore.NewMultiIndexedArrayInMemoryStore()), nil
	case "merged":
		ro := factstore.NewMultiIndexedArrayInMemoryStore()
		add(ro)
		return factstore.NewMergedStore([]factstore.ReadOnlyFactStore{ro}, factstore.NewMultiIndexedArrayInMemoryStore()), nil
	case "teeing":
		b := factstore.NewMultiIndexedArrayInMemoryStore()
		add(b)
		return factstore.NewTeeingStore(b), nil
	case "tadapter":
		return factstore.NewTemporalFactStoreAdapter(factstore.NewTemporalStore()), nil
	}
	return nil, fmt.Errorf("unknown store kind %q", s.kind)
}

// newStoreOrNil builds a plain in-memory store of the given kind (nil for wrapper kinds).
func newStoreOrNil(kind string) factstore.FactStore {
	switch kind {
	case "simple", "indexed", "multi", "array":
		return newStore(kind)
	}
	return nil
}

func atomsSorted(as []mgjson.Atom) []mgjson.Atom {
	sort.SliceStable(as, func(i, j int) bool { return mgjson.Key(as[i]) < mgjson.Key(as[j]) })
	return as
}

// replayHistory runs the operations on one store and returns the trace events (reset first).
func replayHistory(id any, ops []StoreOp, s storeSetup) (events []any) {
	base := s.base
	if base == nil {
		base = []mgjson.Atom{}
	}
	events = append(events, map[string]any{"ev": "reset", "id": id, "kind": s.kind, "base": base, "exact": s.exact, "removable": s.removable})
	defer func() {
		if r := recover(); r != nil {
			events = append(events, map[string]any{"ev": "panic", "err": fmt.Sprint(r)})
		}
	}()
	fs, err := buildStore(s)
	if err != nil {
		panic(err)
	}
	// Merge sources stay alive: a store and the store it was merged from are independent sets afterwards.
	// After every later operation each kept source must still hold exactly what it held; an "alias"
	// event (which the specification rejects) reports the first difference.
	type keptSource struct {
		st    factstore.FactStoreWithRemove
		atoms map[string]mgjson.Atom
	}
	var kept []keptSource
	marker := mgjson.Atom{P: "zz_marker", A: []any{[]any{"n", 7}}}
	checkSources := func(after string) {
		for i, k := range kept {
			got := map[string]bool{}
			for _, p := range k.st.ListPredicates() {
				k.st.GetFacts(ast.NewQuery(p), func(a ast.Atom) error { got[mgjson.Key(mgjson.FromAtom(a))] = true; return nil })
			}
			for key := range k.atoms {
				if !got[key] {
					events = append(events, map[string]any{"ev": "alias", "detail": fmt.Sprintf("after %s merge source %d lost %s", after, i, key)})
					return
				}
			}
			for key := range got {
				if _, ok := k.atoms[key]; !ok {
					events = append(events, map[string]any{"ev": "alias", "detail": fmt.Sprintf("after %s merge source %d gained %s", after, i, key)})
					return
				}
			}
		}
	}
	for _, op := range ops {
		switch op.Ev {
		case "add":
			events = append(events, map[string]any{"ev": "add", "a": op.A, "r": fs.Add(mgjson.ASTAtom(*op.A))})
		case "rm":
			rs, ok := fs.(factstore.FactStoreWithRemove)
			if !ok {
				continue // the store has no Remove: the operation does not exist for it
			}
			events = append(events, map[string]any{"ev": "rm", "a": op.A, "r": rs.Remove(mgjson.ASTAtom(*op.A))})
		case "has":
			events = append(events, map[string]any{"ev": "has", "a": op.A, "r": fs.Contains(mgjson.ASTAtom(*op.A))})
		case "query":
			got := []mgjson.Atom{}
			err := fs.GetFacts(mgjson.ASTAtom(*op.Pat), func(a ast.Atom) error {
				got = append(got, mgjson.FromAtom(a))
				return nil
			})
			ev := map[string]any{"ev": "query", "pat": op.Pat, "r": got}
			if err != nil {
				ev["err"] = err.Error()
			}
			events = append(events, ev)
		case "merge":
			// the source is a simple store or, every other time, a store of the kind under test
			var src factstore.FactStoreWithRemove = factstore.NewSimpleInMemoryStore()
			if len(kept)%2 == 1 {
				if alt, ok := newStoreOrNil(s.kind).(factstore.FactStoreWithRemove); ok && alt != nil {
					src = alt
				}
			}
			k := keptSource{src, map[string]mgjson.Atom{}}
			for _, a := range op.From {
				src.Add(mgjson.ASTAtom(a))
			}
			// what is merged is what the source store holds (read back: the source is a store with its own behaviour -
			// a hash-keyed source keeps one of two atoms with equal hashes, finding F8 - and the store under test is
			// answerable only for merging what it is given)
			from := []mgjson.Atom{}
			for _, p := range src.ListPredicates() {
				src.GetFacts(ast.NewQuery(p), func(a ast.Atom) error { from = append(from, mgjson.FromAtom(a)); return nil })
			}
			fs.Merge(src)
			events = append(events, map[string]any{"ev": "merge", "from": from})
			// the source changes afterwards: the merged-into store must not follow
			hadMarker := fs.Contains(mgjson.ASTAtom(marker))
			src.Add(mgjson.ASTAtom(marker))
			if !hadMarker && fs.Contains(mgjson.ASTAtom(marker)) {
				events = append(events, map[string]any{"ev": "alias", "detail": "a fact added to the merge source afterwards shows up in the store"})
			}
			if len(op.From) > 0 {
				had := fs.Contains(mgjson.ASTAtom(op.From[0]))
				src.Remove(mgjson.ASTAtom(op.From[0]))
				if had && !fs.Contains(mgjson.ASTAtom(op.From[0])) {
					events = append(events, map[string]any{"ev": "alias", "detail": "a fact removed from the merge source afterwards disappeared from the store"})
				}
			}
			// what the source holds now (read back, not assumed: the source is a store with its own behaviour)
			// is what it must still hold after every later operation on the store it was merged into
			for _, p := range src.ListPredicates() {
				src.GetFacts(ast.NewQuery(p), func(a ast.Atom) error { k.atoms[mgjson.Key(mgjson.FromAtom(a))] = mgjson.FromAtom(a); return nil })
			}
			kept = append(kept, k)
		case "preds":
			var ps []any
			for _, p := range fs.ListPredicates() {
				ps = append(ps, []any{p.Symbol, p.Arity})
			}
			if ps == nil {
				ps = []any{}
			}
			events = append(events, map[string]any{"ev": "preds", "r": ps})
		case "count":
			events = append(events, map[string]any{"ev": "count", "r": fs.EstimateFactCount()})
		}
		checkSources(op.Ev)
	}
	return events
}

func setupsFor(kinds string) []storeSetup {
	var out []storeSetup
	for _, s := range storeSetups {
		if kinds != "" && kinds != "all" && kinds != s.kind {
			continue
		}
		if s.kind == "merged" || s.kind == "teeing" {
			for _, b := range baseLayers() {
				t := s
				t.base = b
				out = append(out, t)
			}
			continue
		}
		out = append(out, s)
	}
	return out
}

// cmdStore: vh store --in histories.ndjson --out trace.ndjson [--kinds all|<kind>]
// Each history is replayed into every store setup; the output is one concatenated trace.
func cmdStore(args []string) error {
	f := parseFlags(args)
	setups := setupsFor(f.str("kinds", "all"))
	return parallelMapMulti(f.str("in", "-"), f.str("out", "-"), f.int("workers", 0), func(line []byte) ([]any, error) {
		var h StoreHistory
		if err := jsonDecode(line, &h); err != nil {
			return nil, err
		}
		var all []any
		for _, s := range setups {
			id := fmt.Sprintf("%v/%s/%d", h.ID, s.kind, len(s.base))
			all = append(all, replayHistory(id, h.Ops, s)...)
		}
		return all, nil
	})
}

// randomAtom draws atoms over all constant kinds (direction B: inputs TLC never enumerated).
func randomConst(rnd *rand.Rand, depth int) any {
	switch k := rnd.Intn(9); {
	case k == 0:
		return []any{"n", rnd.Intn(5)}
	case k == 1:
		return []any{"s", []string{"a", "b", "1", "/a", ""}[rnd.Intn(5)]}
	case k == 2:
		return []any{"c", []string{"/a", "/b", "/a/b", "/1"}[rnd.Intn(4)]}
	case k == 3:
		return []any{"f", []string{"1", "1.5", "-0.25", "NaN", "+Inf", "-0"}[rnd.Intn(6)]}
	case k == 4:
		return []any{"y", []string{"a", "ab"}[rnd.Intn(2)]}
	case k == 5 && depth > 0:
		return []any{"pair", randomConst(rnd, depth-1), randomConst(rnd, depth-1)}
	case k == 6 && depth > 0:
		n := rnd.Intn(3)
		l := []any{}
		for i := 0; i < n; i++ {
			l = append(l, randomConst(rnd, depth-1))
		}
		return []any{"list", l}
	case k == 7:
		return []any{"n", []int{65792, 1 << 8, 1 << 16, 513}[rnd.Intn(4)]}
	default:
		return []any{"n", rnd.Intn(3)}
	}
}

func randomHistory(rnd *rand.Rand, n int) []StoreOp {
	// a small pool so that operations hit each other
	var pool []mgjson.Atom
	for i := 0; i < 7; i++ {
		ar := rnd.Intn(3)
		a := mgjson.Atom{P: []string{"p", "q"}[rnd.Intn(2)], A: []any{}}
		for j := 0; j < ar; j++ {
			a.A = append(a.A, randomConst(rnd, 2))
		}
		pool = append(pool, a)
	}
	pick := func() *mgjson.Atom { a := pool[rnd.Intn(len(pool))]; return &a }
	var ops []StoreOp
	for i := 0; i < n; i++ {
		switch k := rnd.Intn(10); {
		case k < 3:
			ops = append(ops, StoreOp{Ev: "add", A: pick()})
		case k < 5:
			ops = append(ops, StoreOp{Ev: "rm", A: pick()})
		case k < 6:
			ops = append(ops, StoreOp{Ev: "has", A: pick()})
		case k < 8:
			a := *pick()
			pat := mgjson.Atom{P: a.P, A: make([]any, len(a.A))}
			for j := range a.A {
				if rnd.Intn(2) == 0 {
					pat.A[j] = a.A[j]
				} else {
					pat.A[j] = []any{"v", fmt.Sprintf("X%d", j)}
				}
			}
			ops = append(ops, StoreOp{Ev: "query", Pat: &pat})
		case k < 9:
			var from []mgjson.Atom
			for j := rnd.Intn(3); j > 0; j-- {
				from = append(from, *pick())
			}
			ops = append(ops, StoreOp{Ev: "merge", From: from})
		default:
			ops = append(ops, StoreOp{Ev: []string{"preds", "count"}[rnd.Intn(2)]})
		}
	}
	return ops
}

// cmdStoreRandom: vh store-random --seed S --n N --len L --out histories.ndjson
func cmdStoreRandom(args []string) error {
	f := parseFlags(args)
	rnd := rand.New(rand.NewSource(int64(f.int("seed", 1))))
	out, err := newLineWriter(f.str("out", "-"))
	if err != nil {
		return err
	}
	defer out.close()
	for i := 0; i < f.int("n", 100); i++ {
		out.write(StoreHistory{ID: fmt.Sprintf("rnd-%d", i), Ops: randomHistory(rnd, f.int("len", 40))})
	}
	return nil
}

func init() {
	commands["store"] = cmdStore
	commands["store-random"] = cmdStoreRandom
}
