package main

import (
	"fmt"
	"reflect"
	"strings"
	"time"

	"codeberg.org/TauCeti/mangle-go/ast"
	"codeberg.org/TauCeti/mangle-go/functional"
	"codeberg.org/TauCeti/mangle-go/parse"
	"verif/harness/mgjson"
)

// Clause round trips (C09): a clause is obtained from the parser (from the harness's own text rendering
// of a TLC-generated clause), printed with String(), parsed again and compared structurally.

type ClauseRT struct {
	Ev      string `json:"ev"`
	ID      any    `json:"id"`
	Vid     int    `json:"vid"`
	Source  string `json:"source"`
	Printed string `json:"printed"`
	Err     string `json:"err"`
	// structural dumps (Go syntax of the trees), compared by TLC as opaque strings
	Original string `json:"original"`
	Reparsed string `json:"reparsed"`
	Equals   bool   `json:"equals"`
}

func dump(c ast.Clause) string { return fmt.Sprintf("%#v", normalizeClause(c)) }

// normalizeClause removes representation detail that is not part of the tree: nil vs empty slices.
func normalizeClause(c ast.Clause) ast.Clause {
	c.Head = normAtom(c.Head)
	if len(c.Premises) == 0 {
		c.Premises = nil
	} else {
		ps := make([]ast.Term, len(c.Premises))
		for i, p := range c.Premises {
			ps[i] = normTerm(p)
		}
		c.Premises = ps
	}
	return c
}

// normBase: constants are compared after evaluating their constructor expressions (as the property says);
// for expressions with variables the recorded arity of variadic constructors ([] is fn:list/-1, fn:list() is
// fn:list/0) is not part of the tree.
func normBase(t ast.BaseTerm) ast.BaseTerm {
	if a, ok := t.(ast.ApplyFn); ok {
		if v, err := functional.EvalExpr(a, nil); err == nil {
			if c, ok := v.(ast.Constant); ok {
				return c
			}
		}
		var args []ast.BaseTerm
		for _, x := range a.Args {
			args = append(args, normBase(x))
		}
		return ast.ApplyFn{Function: ast.FunctionSym{Symbol: a.Function.Symbol, Arity: len(args)}, Args: args}
	}
	return t
}

func normAtom(a ast.Atom) ast.Atom {
	var args []ast.BaseTerm
	for _, x := range a.Args {
		args = append(args, normBase(x))
	}
	return ast.Atom{Predicate: a.Predicate, Args: args}
}

func normTerm(t ast.Term) ast.Term {
	switch x := t.(type) {
	case ast.Atom:
		return normAtom(x)
	case ast.NegAtom:
		return ast.NegAtom{Atom: normAtom(x.Atom)}
	case ast.Eq:
		return ast.Eq{Left: normBase(x.Left), Right: normBase(x.Right)}
	case ast.Ineq:
		return ast.Ineq{Left: normBase(x.Left), Right: normBase(x.Right)}
	case ast.TemporalLiteral:
		x.Literal = normTerm(x.Literal)
		return x
	}
	return t
}

func roundTripClause(id any, source string) ClauseRT {
	r := ClauseRT{Ev: "roundtrip", ID: id, Source: source}
	defer func() {
		if p := recover(); p != nil {
			r.Err = fmt.Sprint("panic: ", p)
		}
	}()
	c1, err := parse.Clause(source)
	if err != nil {
		r.Err = "source does not parse (harness): " + err.Error()
		r.Equals, r.Original, r.Reparsed = true, "-", "-" // not a round-trip failure of the library
		r.Err = ""
		r.Printed = "(skipped)"
		return r
	}
	r.Printed = c1.String()
	c2, err := parse.Clause(r.Printed)
	if err != nil {
		r.Err = err.Error()
		return r
	}
	r.Equals = reflect.DeepEqual(normalizeClause(c1), normalizeClause(c2))
	r.Original, r.Reparsed = "-", "-"
	if !r.Equals {
		// the dumps contain pointer values, so they are only shown when the trees differ
		r.Original, r.Reparsed = dump(c1), dump(c2)+" (differs)"
	}
	return r
}

// cmdClauses: vh clauses --in cases.ndjson --out trace.ndjson    (cases: eval cases or temporal cases)
func cmdClauses(args []string) error {
	f := parseFlags(args)
	first := true
	if off := f.int("tz", 0); off != 0 {
		// the round trip must hold under every configured default timezone (ast.SetTimezone is process-wide)
		ast.SetDefaultTimezone(time.FixedZone("verif", off))
		defer ast.SetDefaultTimezone(time.UTC)
	}
	return parallelMapMulti(f.str("in", "-"), f.str("out", "-"), 1, func(line []byte) ([]any, error) {
		var out []any
		if first {
			out = append(out, map[string]any{"ev": "header", "nobj": 0, "values": []any{}})
			first = false
		}
		var probe map[string]any
		if err := jsonDecode(line, &probe); err != nil {
			return nil, err
		}
		if src, ok := probe["source"].(string); ok {
			out = append(out, roundTripClause(probe["id"], src))
			return out, nil
		}
		if _, temporal := probe["tfacts"]; temporal {
			var c TCase
			if err := jsonDecode(line, &c); err != nil {
				return nil, err
			}
			ident := func(n int) []int {
				o := make([]int, n)
				for i := range o {
					o[i] = i
				}
				return o
			}
			for k, l := range strings.Split(tprogramText(c, ident(len(c.Rules)), ident(len(c.TFacts))), "\n") {
				if l == "" || strings.HasPrefix(l, "Decl") {
					continue
				}
				out = append(out, roundTripClause(fmt.Sprintf("%v#%d", c.ID, k), l)) // one id per clause
			}
			return out, nil
		}
		var c EvalCase
		if err := jsonDecode(line, &c); err != nil {
			return nil, err
		}
		for _, r := range c.Rules {
			out = append(out, roundTripClause(fmt.Sprintf("%v#r%d", c.ID, len(out)), mgjson.ClauseText(r)))
		}
		for _, fct := range c.Edb {
			out = append(out, roundTripClause(fmt.Sprintf("%v#f%d", c.ID, len(out)), mgjson.AtomText(fct)+"."))
		}
		return out, nil
	})
}

func init() { commands["clauses"] = cmdClauses }
