package main

import (
	"fmt"

	"codeberg.org/TauCeti/mangle-go/ast"
	"codeberg.org/TauCeti/mangle-go/builtin"
	"codeberg.org/TauCeti/mangle-go/functional"
	"codeberg.org/TauCeti/mangle-go/unionfind"
	"verif/harness/mgjson"
)

// Built-ins (C07, spec/BuiltinGen.tla): vectors (function, arguments) evaluated by the real functions.
type BiCase struct {
	ID any    `json:"id"`
	F  string `json:"f"`
	A  []any  `json:"a"`
	// Ring: the arguments are symbolic int64 values ["w", a, b] (spec/Ring64.tla); numeric results are reported the same way
	Ring bool `json:"ring,omitempty"`
}

var cmpPred = map[string]string{"lt": ":lt", "le": ":le", "gt": ":gt", "ge": ":ge"}

func runBuiltin(c BiCase) (ev map[string]any) {
	ev = map[string]any{"id": c.ID, "f": c.F, "a": c.A, "err": false, "got": []any{"none"}, "detail": "", "ring": c.Ring}
	fromConst := func(k ast.Constant) any {
		if c.Ring && k.Type == ast.NumberType {
			return mgjson.RingOf(k.NumValue)
		}
		return mgjson.FromConst(k)
	}
	defer func() {
		if r := recover(); r != nil {
			ev["err"], ev["detail"], ev["panic"] = true, fmt.Sprint("panic: ", r), true
		}
	}()
	if p, ok := cmpPred[c.F]; ok {
		atom := ast.Atom{Predicate: ast.PredicateSym{Symbol: p, Arity: 2}, Args: []ast.BaseTerm{mgjson.Const(c.A[0]), mgjson.Const(c.A[1])}}
		uf := unionfind.New()
		okk, _, err := builtin.Decide(atom, &uf)
		if err != nil {
			ev["err"], ev["detail"] = true, err.Error()
			return
		}
		ev["got"] = []any{"bool", okk}
		return
	}
	if len(c.F) > 0 && c.F[0] == ':' {
		// a matching predicate: all solutions, each as the bindings of the variables among the arguments
		var args []ast.BaseTerm
		var vars []ast.Variable
		for _, x := range c.A {
			t := mgjson.Term(x)
			args = append(args, t)
			if v, ok := t.(ast.Variable); ok {
				vars = append(vars, v)
			}
		}
		atom := ast.Atom{Predicate: ast.PredicateSym{Symbol: c.F, Arity: len(args)}, Args: args}
		uf := unionfind.New()
		okk, sols, err := builtin.Decide(atom, &uf)
		ev["sols"] = []any{}
		if err != nil {
			ev["err"], ev["detail"] = true, err.Error()
			return
		}
		if !okk {
			return
		}
		var out []any
		for _, s := range sols {
			var bs []any
			seen := map[string]bool{}
			for _, v := range vars {
				if seen[v.Symbol] {
					continue
				}
				seen[v.Symbol] = true
				if k, ok := s.Get(v).(ast.Constant); ok {
					bs = append(bs, []any{v.Symbol, mgjson.FromConst(k)})
				} else {
					bs = append(bs, []any{v.Symbol, []any{"unbound"}})
				}
			}
			if bs == nil {
				bs = []any{}
			}
			out = append(out, bs)
		}
		if out != nil {
			ev["sols"] = out
		}
		return
	}
	switch c.F {
	case "fn:count", "fn:sum", "fn:min", "fn:max", "fn:avg", "fn:collect_distinct",
		"fn:time:max", "fn:time:min", "fn:duration:max", "fn:duration:min", "fn:duration:sum":
		v := ast.Variable{Symbol: "V"}
		var rows []ast.ConstSubstList
		for _, x := range c.A {
			var row ast.ConstSubstList
			rows = append(rows, row.Extend(v, mgjson.Const(x)))
		}
		args := []ast.BaseTerm{v}
		if c.F == "fn:count" {
			args = nil
		}
		res, err := functional.EvalReduceFn(ast.ApplyFn{Function: ast.FunctionSym{Symbol: c.F, Arity: len(args)}, Args: args}, rows)
		if err != nil {
			ev["err"], ev["detail"] = true, err.Error()
			return
		}
		ev["got"] = fromConst(res)
		return
	}
	var args []ast.BaseTerm
	for _, x := range c.A {
		args = append(args, mgjson.Const(x))
	}
	res, err := functional.EvalApplyFn(ast.ApplyFn{Function: ast.FunctionSym{Symbol: c.F, Arity: len(args)}, Args: args}, nil)
	if err != nil {
		ev["err"], ev["detail"] = true, err.Error()
		return
	}
	ev["got"] = fromConst(res)
	return
}

// cmdBuiltins: vh builtins --in vectors.ndjson --out trace.ndjson
func cmdBuiltins(args []string) error {
	f := parseFlags(args)
	mgjson.RatioFloats = true
	return parallelMap(f.str("in", "-"), f.str("out", "-"), 1, func(line []byte) (any, error) {
		var c BiCase
		if err := jsonDecode(line, &c); err != nil {
			return nil, err
		}
		return runBuiltin(c), nil
	})
}

func init() { commands["builtins"] = cmdBuiltins }
