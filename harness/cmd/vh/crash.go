package main

import (
	"bytes"
	"fmt"
	"os"
	"regexp"
	"strings"
	"time"
	"verif/harness/mgjson"

	"codeberg.org/TauCeti/mangle-go/analysis"
	"codeberg.org/TauCeti/mangle-go/ast"
	"codeberg.org/TauCeti/mangle-go/engine"
	"codeberg.org/TauCeti/mangle-go/factstore"
	"codeberg.org/TauCeti/mangle-go/parse"
)

// Front-end robustness (C10, spec/Frontend.tla): every stage returns a value or an error.

type CrashCase struct {
	ID   any      `json:"id"`
	Kind string   `json:"kind"` // tokens | edit | sc | text
	Toks []string `json:"toks,omitempty"`
	Seed int      `json:"seed,omitempty"`
	Op   string   `json:"op,omitempty"`
	Pos  int      `json:"pos,omitempty"`
	Tok  string   `json:"tok,omitempty"`
	Text string   `json:"text,omitempty"`
	// kind "prog": a generated program (ProgGen case) rendered as source text
	Rules []mgjson.Clause `json:"rules,omitempty"`
	Edb   []mgjson.Atom   `json:"edb,omitempty"`
	// kind "decl": pieces of a declaration and one use of the declared predicate (spec/DeclGen.tla)
	Arity int    `json:"arity,omitempty"`
	Descr string `json:"descr,omitempty"`
	Ty    string `json:"ty,omitempty"`
	Ty2   string `json:"ty2,omitempty"`
	Use   string `json:"use,omitempty"`
	Pkg   string `json:"pkg,omitempty"`
}

// declText assembles "Decl p(X0..) descr [D] bound [T..] bound [T2..]." and one use of p.
func declText(c CrashCase) string {
	vars := make([]string, c.Arity)
	consts := make([]string, c.Arity)
	for i := range vars {
		vars[i] = fmt.Sprintf("X%d", i)
		consts[i] = fmt.Sprint(i + 1)
	}
	hd := "p(" + strings.Join(vars, ", ") + ")"
	row := func(t string) string {
		if t == "" || c.Arity == 0 {
			return ""
		}
		ts := make([]string, c.Arity)
		for i := range ts {
			ts[i] = t
		}
		return " bound [" + strings.Join(ts, ", ") + "]"
	}
	var sb strings.Builder
	if c.Pkg != "" {
		sb.WriteString(c.Pkg + "\n")
	}
	sb.WriteString("Decl " + hd)
	if c.Descr != "" {
		sb.WriteString(" descr [" + c.Descr + "]")
	}
	sb.WriteString(row(c.Ty) + row(c.Ty2) + ".\n")
	if strings.Contains(c.Descr, "'mp'") {
		sb.WriteString("Decl mp(A, B, C) descr [mode('+', '+', '-'), deferred()].\nmp(A, B, C) :- A < B, C = A.\nmp(A, B, C) :- B <= A, C = B.\n")
	}
	src := "src(" + strings.Join(consts, ", ") + ")"
	switch c.Use {
	case "fact":
		sb.WriteString("p(" + strings.Join(consts, ", ") + ").\n")
	case "fact_struct":
		if c.Arity > 0 {
			args := append([]string{"{/a: 1}"}, consts[1:]...)
			sb.WriteString("p(" + strings.Join(args, ", ") + ").\n")
		}
	case "head":
		sb.WriteString(src + ".\n" + hd + " :- src(" + strings.Join(vars, ", ") + ").\n")
	case "body":
		sb.WriteString(src + ".\nu(1) :- src(" + strings.Join(vars, ", ") + "), " + hd + ".\n")
	case "negbody":
		sb.WriteString(src + ".\nu(1) :- src(" + strings.Join(vars, ", ") + "), !" + hd + ".\n")
	case "field":
		if c.Arity > 0 {
			sb.WriteString("p(" + strings.Join(append([]string{"{/a: 1}"}, consts[1:]...), ", ") + ").\nu(Y) :- " + hd + ", :match_field(X0, /b, Y).\n")
		}
	case "pair":
		if c.Arity > 0 {
			sb.WriteString("u(Y) :- " + hd + ", :match_pair(X0, Y, _).\n")
		}
	case "member":
		if c.Arity > 0 {
			sb.WriteString("u(Y) :- " + hd + ", :list:member(Y, X0).\nv(Y) :- " + hd + ", :match_entry(X0, 1, Y).\n")
		}
	}
	return sb.String()
}

type Stage struct {
	Name    string `json:"name"`
	Outcome string `json:"outcome"` // value | error | skipped | panic | timeout
	Detail  string `json:"detail,omitempty"`
}

type CrashResult struct {
	ID     any     `json:"id"`
	Kind   string  `json:"kind"`
	Input  string  `json:"input"`
	Stages []Stage `json:"stages"`
}

// guard runs fn with panic recovery and a deadline (non-return is reported as "timeout").
func guard(name string, fn func() error) Stage {
	done := make(chan Stage, 1)
	go func() {
		st := Stage{Name: name, Outcome: "value"}
		defer func() {
			if r := recover(); r != nil {
				st.Outcome, st.Detail = "panic", fmt.Sprint(r)
			}
			done <- st
		}()
		if err := fn(); err != nil {
			st.Outcome = "error"
			st.Detail = err.Error()
			if len(st.Detail) > 200 {
				st.Detail = st.Detail[:200]
			}
		}
	}()
	select {
	case st := <-done:
		return st
	case <-time.After(20 * time.Second):
		return Stage{Name: name, Outcome: "timeout"}
	}
}

func frontEnd(text string) []Stage {
	var stages []Stage
	var unit parse.SourceUnit
	st := guard("parse.Unit", func() error {
		var err error
		unit, err = parse.Unit(strings.NewReader(text))
		return err
	})
	stages = append(stages, st)
	stages = append(stages, guard("parse.Clause", func() error { _, err := parse.Clause(text); return err }))
	stages = append(stages, guard("parse.Term", func() error { _, err := parse.Term(text); return err }))
	stages = append(stages, guard("parse.BaseTerm", func() error { _, err := parse.BaseTerm(text); return err }))
	stages = append(stages, guard("parse.Atom", func() error { _, err := parse.Atom(text); return err }))
	stages = append(stages, guard("parse.LiteralOrFormula", func() error { _, err := parse.LiteralOrFormula(text); return err }))
	stages = append(stages, guard("parse.PredicateName", func() error { _, err := parse.PredicateName(text); return err }))
	if st.Outcome != "value" {
		stages = append(stages, Stage{Name: "analysis", Outcome: "skipped"}, Stage{Name: "eval", Outcome: "skipped"})
		return stages
	}
	var info *analysis.ProgramInfo
	st = guard("analysis", func() error {
		var err error
		info, err = analysis.AnalyzeAndCheckBounds([]parse.SourceUnit{unit}, nil, analysis.ErrorForBoundsMismatch)
		return err
	})
	stages = append(stages, st)
	if st.Outcome != "value" {
		stages = append(stages, Stage{Name: "eval", Outcome: "skipped"})
		return stages
	}
	stages = append(stages, guard("eval", func() error {
		return engine.EvalProgram(info, factstore.NewSimpleInMemoryStore(), engine.WithCreatedFactLimit(2000),
			engine.WithTemporalStore(factstore.NewTemporalStore()), engine.WithEvaluationTime(teBase))
	}))
	return stages
}

func scStages(data []byte) []Stage {
	var stages []Stage
	stages = append(stages, guard("sc.ReadInto", func() error {
		return factstore.SimpleColumn{}.ReadInto(bytes.NewReader(data), factstore.NewSimpleInMemoryStore())
	}))
	var lazy *factstore.SimpleColumnStore
	st := guard("sc.NewStore", func() error {
		var err error
		lazy, err = factstore.NewSimpleColumnStoreFromBytes(data)
		return err
	})
	stages = append(stages, st)
	if st.Outcome == "value" && lazy != nil {
		stages = append(stages, guard("sc.lazy.queries", func() error {
			var last error
			for _, p := range lazy.ListPredicates() {
				if err := lazy.GetFacts(ast.NewQuery(p), func(ast.Atom) error { return nil }); err != nil {
					last = err
				}
				lazy.Contains(ast.NewQuery(p))
			}
			lazy.EstimateFactCount()
			return last
		}))
	} else {
		stages = append(stages, Stage{Name: "sc.lazy.queries", Outcome: "skipped"})
	}
	return stages
}

var tokRe = regexp.MustCompile(`"(?:[^"\\]|\\.)*"|'(?:[^'\\]|\\.)*'|:-|\|>|!=|<=|>=|<-|\[-|<\+|\[\+|[A-Za-z_:/.][A-Za-z0-9_:/.%~-]*|-?\d+(?:\.\d+)?|\S`)

func applyEdit(seed string, op string, pos int, tok string) string {
	toks := tokRe.FindAllString(seed, -1)
	if len(toks) == 0 {
		return seed
	}
	i := (pos - 1) % len(toks)
	switch op {
	case "del":
		toks = append(toks[:i:i], toks[i+1:]...)
	case "dup":
		toks = append(toks[:i+1:i+1], toks[i:]...)
	case "del2": // two consecutive tokens (a separator and an element)
		j := i + 2
		if j > len(toks) {
			j = len(toks)
		}
		toks = append(toks[:i:i], toks[j:]...)
	case "dup2":
		j := i + 2
		if j > len(toks) {
			j = len(toks)
		}
		pair := append([]string{}, toks[i:j]...)
		toks = append(toks[:j:j], append(pair, toks[j:]...)...)
	case "swap":
		j := (i + 1) % len(toks)
		toks[i], toks[j] = toks[j], toks[i]
	case "trunc":
		toks = toks[:i]
	case "rep":
		toks[i] = tok
	}
	return strings.Join(toks, " ")
}

func applyScEdit(seed string, op string, pos int) string {
	lines := strings.Split(strings.TrimSuffix(seed, "\n"), "\n")
	i := (pos - 1) % len(lines)
	hdr := func(k int, f func(name string, arity, count int) string) {
		// k-th header line (1-based among predicate lines), if any
		var n int
		fmt.Sscanf(lines[0], "%d", &n)
		if n <= 0 {
			return
		}
		j := 1 + (k-1)%n
		if j >= len(lines) {
			return
		}
		var name string
		var ar, cnt int
		if _, err := fmt.Sscanf(lines[j], "%s %d %d", &name, &ar, &cnt); err == nil {
			lines[j] = f(name, ar, cnt)
		}
	}
	switch op {
	case "blank":
		lines[i] = ""
	case "delete":
		lines = append(lines[:i:i], lines[i+1:]...)
	case "dup":
		lines = append(lines[:i+1:i+1], lines[i:]...)
	case "truncate":
		lines = lines[:i]
	case "garbage":
		lines[i] = "\x00)(*&^ \"unterminated"
	case "count+1":
		hdr(pos, func(n string, a, c int) string { return fmt.Sprintf("%s %d %d", n, a, c+1) })
	case "count-1":
		hdr(pos, func(n string, a, c int) string { return fmt.Sprintf("%s %d %d", n, a, c-1) })
	case "count-neg":
		hdr(pos, func(n string, a, c int) string { return fmt.Sprintf("%s %d %d", n, a, -3) })
	case "count-huge":
		hdr(pos, func(n string, a, c int) string { return fmt.Sprintf("%s %d %d", n, a, 2000000000) })
	case "arity+1":
		hdr(pos, func(n string, a, c int) string { return fmt.Sprintf("%s %d %d", n, a+1, c) })
	case "arity-neg":
		hdr(pos, func(n string, a, c int) string { return fmt.Sprintf("%s %d %d", n, -1, c) })
	case "npreds+1":
		var n int
		fmt.Sscanf(lines[0], "%d", &n)
		lines[0] = fmt.Sprint(n + 1)
	case "npreds-neg":
		lines[0] = "-2"
	}
	return strings.Join(lines, "\n") + "\n"
}

// cmdCrash: vh crash --in cases.ndjson --out results.ndjson --seeds seeds.txt --scseeds scseeds.txt
// seeds files: records separated by a line containing only "%%".
func cmdCrash(args []string) error {
	f := parseFlags(args)
	load := func(p string) []string {
		if p == "" {
			return nil
		}
		b, err := os.ReadFile(p)
		if err != nil {
			return nil
		}
		var out []string
		for _, s := range strings.Split(string(b), "\n%%\n") {
			if strings.TrimSpace(s) != "" {
				out = append(out, s)
			}
		}
		return out
	}
	seeds, scseeds := load(f.str("seeds", "")), load(f.str("scseeds", ""))
	return parallelMap(f.str("in", "-"), f.str("out", "-"), f.int("workers", 0), func(line []byte) (any, error) {
		var c CrashCase
		if err := jsonDecode(line, &c); err != nil {
			return nil, err
		}
		res := CrashResult{ID: c.ID, Kind: c.Kind}
		switch c.Kind {
		case "tokens":
			res.Input = strings.Join(c.Toks, " ")
			res.Stages = frontEnd(res.Input)
		case "edit":
			if len(seeds) == 0 {
				return nil, fmt.Errorf("no seeds")
			}
			res.Input = applyEdit(seeds[(c.Seed-1)%len(seeds)], c.Op, c.Pos, c.Tok)
			res.Stages = frontEnd(res.Input)
		case "sc":
			if len(scseeds) == 0 {
				return nil, fmt.Errorf("no sc seeds")
			}
			res.Input = applyScEdit(scseeds[(c.Seed-1)%len(scseeds)], c.Op, c.Pos)
			res.Stages = scStages([]byte(res.Input))
		case "decl":
			res.Input = declText(c)
			res.Stages = frontEnd(res.Input)
		case "prog", "":
			if len(c.Rules) > 0 || len(c.Edb) > 0 {
				res.Kind = "prog"
				res.Input = programText(EvalCase{Rules: c.Rules, Edb: c.Edb}, true, nil)
				res.Stages = frontEnd(res.Input)
				break
			}
			fallthrough
		default:
			res.Input = c.Text
			res.Stages = frontEnd(res.Input)
		}
		if len(res.Input) > 1500 {
			res.Input = res.Input[:1500]
		}
		return res, nil
	})
}

func init() { commands["crash"] = cmdCrash }
