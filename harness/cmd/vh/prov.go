package main

import (
	"fmt"
	"sort"
	"strings"

	"codeberg.org/TauCeti/mangle-go/analysis"
	"codeberg.org/TauCeti/mangle-go/ast"
	"codeberg.org/TauCeti/mangle-go/engine"
	"codeberg.org/TauCeti/mangle-go/factstore"
	"codeberg.org/TauCeti/mangle-go/parse"
	"codeberg.org/TauCeti/mangle-go/provenance"
	"verif/harness/mgjson"
)

// Provenance (C15): every fact of the evaluated store is explained post hoc and from a recording;
// the proof trees are serialised for validation by spec/Trace_Provenance.tla.

type ProvGoal struct {
	Goal      mgjson.Atom `json:"goal"`
	Mode      string      `json:"mode"` // explain | recorded
	MaxProofs int         `json:"maxproofs"`
	Err       string      `json:"err"`
	Proofs    []any       `json:"proofs"`
}

type ProvResult struct {
	ID           any             `json:"id"`
	Rules        []mgjson.Clause `json:"rules"`
	Edb          []mgjson.Atom   `json:"edb"`
	Text         string          `json:"text"`
	Outcome      string          `json:"outcome"`
	Err          string          `json:"err,omitempty"`
	Facts        []mgjson.Atom   `json:"facts"`
	Analysed     []mgjson.Clause `json:"analysed"` // the rules as the explainer sees them (after analysis)
	RecorderSame bool            `json:"recorder_same"`
	Goals        []ProvGoal      `json:"goals"`
}

var kindName = map[provenance.Kind]string{provenance.KindEDB: "edb", provenance.KindDerived: "derived", provenance.KindAbsence: "absence",
	provenance.KindLetRow: "let", provenance.KindDoAggregate: "do"}

func provNode(n *provenance.ProofNode, depth int) any {
	m := map[string]any{"id": n.ID, "fact": mgjson.FromAtom(n.Fact), "kind": kindName[n.Kind], "partial": n.Partial,
		"rule_id": n.RuleID, "bindings": []any{}, "premises": []any{}, "rule": map[string]any{"none": true}}
	if n.Rule != nil {
		m["rule"] = mgjson.FromClause(*n.Rule)
	}
	var bs []any
	for _, b := range n.Bindings {
		bs = append(bs, []any{b.Var.Symbol, mgjson.FromConst(b.Value)})
	}
	if bs != nil {
		m["bindings"] = bs
	}
	var ps []any
	if depth < 40 {
		for _, p := range n.Premises {
			ps = append(ps, provNode(p, depth+1))
		}
	} else {
		m["truncated"] = true
	}
	if ps != nil {
		m["premises"] = ps
	}
	return m
}

func runProv(c EvalCase) (res ProvResult) {
	res = ProvResult{ID: c.ID, Rules: c.Rules, Edb: c.Edb, Facts: []mgjson.Atom{}, Goals: []ProvGoal{}, Analysed: []mgjson.Clause{}}
	if res.Edb == nil {
		res.Edb = []mgjson.Atom{}
	}
	defer func() {
		if r := recover(); r != nil {
			res.Outcome, res.Err = "panic", fmt.Sprint(r)
		}
	}()
	res.Text = programText(c, true, nil)
	unit, err := parse.Unit(strings.NewReader(res.Text))
	if err != nil {
		res.Outcome, res.Err = "parse_err", err.Error()
		return
	}
	info, err := analysis.AnalyzeOneUnit(unit, nil)
	if err != nil {
		res.Outcome, res.Err = "analysis_err", err.Error()
		return
	}
	for _, r := range info.Rules {
		res.Analysed = append(res.Analysed, mgjson.FromClause(r))
	}
	plain := factstore.NewMultiIndexedArrayInMemoryStore()
	if err := engine.EvalProgram(info, plain, engine.WithCreatedFactLimit(20000)); err != nil {
		res.Outcome, res.Err = "eval_err", err.Error()
		return
	}
	rec := provenance.NewMemoryRecorder()
	store := factstore.NewMultiIndexedArrayInMemoryStore()
	if err := engine.EvalProgram(info, store, engine.WithCreatedFactLimit(20000), engine.WithDerivationRecorder(rec)); err != nil {
		res.Outcome, res.Err = "eval_err", "with recorder: "+err.Error()
		return
	}
	res.Outcome = "ok"
	res.Facts = dumpStore(store)
	// collected lists are compared as sets (their order is documented as unspecified)
	res.RecorderSame = strings.Join(mgjson.FactSetKey(listsSorted(res.Facts)), ";") == strings.Join(mgjson.FactSetKey(listsSorted(dumpStore(plain))), ";")
	var goals []ast.Atom
	for _, p := range store.ListPredicates() {
		if isInternal(p.Symbol) {
			continue
		}
		store.GetFacts(ast.NewQuery(p), func(a ast.Atom) error { goals = append(goals, a); return nil })
	}
	sort.Slice(goals, func(i, j int) bool { return goals[i].String() < goals[j].String() })
	for _, g := range goals {
		for _, mp := range []int{1, 3} {
			for _, mode := range []string{"explain", "recorded"} {
				pg := ProvGoal{Goal: mgjson.FromAtom(g), Mode: mode, MaxProofs: mp, Proofs: []any{}}
				var proofs []*provenance.ProofNode
				var err error
				if mode == "explain" {
					proofs, err = provenance.Explain(info, store, g, provenance.Options{MaxProofs: mp})
				} else {
					proofs, err = provenance.BuildFromRecording(rec, store, g, provenance.Options{MaxProofs: mp})
				}
				if err != nil {
					pg.Err = err.Error()
				}
				for _, p := range proofs {
					pg.Proofs = append(pg.Proofs, provNode(p, 0))
				}
				res.Goals = append(res.Goals, pg)
			}
		}
	}
	return
}

// cmdProv: vh prov --in cases.ndjson --out results.ndjson
func cmdProv(args []string) error {
	f := parseFlags(args)
	return parallelMap(f.str("in", "-"), f.str("out", "-"), f.int("workers", 0), func(line []byte) (any, error) {
		var c EvalCase
		if err := jsonDecode(line, &c); err != nil {
			return nil, err
		}
		return runProv(c), nil
	})
}

func init() { commands["prov"] = cmdProv }

// listsSorted returns a copy of the facts in which every top-level list argument has its elements sorted.
func listsSorted(fs []mgjson.Atom) []mgjson.Atom {
	out := make([]mgjson.Atom, len(fs))
	for i, f := range fs {
		g := mgjson.Atom{P: f.P, A: make([]any, len(f.A))}
		for j, a := range f.A {
			g.A[j] = a
			if arr, ok := a.([]any); ok && len(arr) == 2 && arr[0] == "list" {
				if elems, ok := arr[1].([]any); ok {
					cp := append([]any(nil), elems...)
					sort.Slice(cp, func(x, y int) bool { return mgjson.Key(cp[x]) < mgjson.Key(cp[y]) })
					g.A[j] = []any{"list", cp}
				}
			}
		}
		out[i] = g
	}
	return out
}
