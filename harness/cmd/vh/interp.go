package main

import (
	"bytes"
	"fmt"
	"os"
	"path/filepath"
	"sort"
	"strings"

	"codeberg.org/TauCeti/mangle-go/ast"
	"codeberg.org/TauCeti/mangle-go/interpreter"
	"verif/harness/mgjson"
)

// Interpreter histories (C16, spec/Interpreter.tla).
type ILibText struct {
	Valid   bool            `json:"valid"`
	Clauses []mgjson.Clause `json:"clauses"`
}

type ILib struct {
	ID    string                     `json:"id"`
	Files map[string][]mgjson.Clause `json:"files"`
	Texts map[string]ILibText        `json:"texts"`
}

type ICmd struct {
	Ev    string   `json:"ev"`
	Text  string   `json:"text,omitempty"`
	Files []string `json:"files,omitempty"`
}

type IHistory struct {
	ID   any    `json:"id"`
	Cmds []ICmd `json:"cmds"`
}

func clausesText(cs []mgjson.Clause) string {
	var sb strings.Builder
	for _, c := range cs {
		sb.WriteString(mgjson.ClauseText(c))
		sb.WriteString("\n")
	}
	return sb.String()
}

func libPreds(lib ILib) [][2]any {
	seen := map[string]bool{}
	var out [][2]any
	add := func(cs []mgjson.Clause) {
		for _, c := range cs {
			visit := func(a mgjson.Atom) {
				k := fmt.Sprintf("%s/%d", a.P, len(a.A))
				if !seen[k] {
					seen[k] = true
					out = append(out, [2]any{a.P, len(a.A)})
				}
			}
			visit(c.H)
			for _, l := range c.B {
				la := l.([]any)
				if k := la[0].(string); k == "pos" || k == "neg" {
					visit(mgjson.AtomOf(la[1]))
				}
			}
		}
	}
	var names []string
	for n := range lib.Files {
		names = append(names, n)
	}
	sort.Strings(names)
	for _, n := range names {
		add(lib.Files[n])
	}
	names = nil
	for n := range lib.Texts {
		names = append(names, n)
	}
	sort.Strings(names)
	for _, n := range names {
		add(lib.Texts[n].Clauses)
	}
	return out
}

// observe queries every library predicate by name (known?) and lists its facts.
func observe(in *interpreter.Interpreter, preds [][2]any) map[string]any {
	var q []any
	for _, p := range preds {
		sym, ar := p[0].(string), p[1].(int)
		o := map[string]any{"pred": sym, "arity": ar, "known": false, "facts": []mgjson.Atom{}}
		// a predicate is known when the interpreter resolves its bare name to this arity
		if atom, err := in.ParseQuery(sym); err == nil && atom.Predicate.Arity == ar {
			o["known"] = true
			facts := []mgjson.Atom{}
			if terms, err := in.Query(atom); err == nil {
				for _, t := range terms {
					switch a := t.(type) {
					case ast.Atom:
						facts = append(facts, mgjson.FromAtom(a))
					case ast.TemporalAtom: // a fact from the temporal store (library clauses only use the eternal annotation)
						facts = append(facts, mgjson.FromAtom(a.Atom))
					}
				}
			}
			sort.Slice(facts, func(i, j int) bool { return mgjson.Key(facts[i]) < mgjson.Key(facts[j]) })
			o["facts"] = facts
		}
		q = append(q, o)
	}
	return map[string]any{"ev": "obs", "q": q}
}

func applyICmd(in *interpreter.Interpreter, lib ILib, c ICmd) (bool, string) {
	switch c.Ev {
	case "define":
		t := lib.Texts[c.Text]
		text := clausesText(t.Clauses)
		if !t.Valid {
			text = "bad( :- ."
		}
		if err := in.Define(text); err != nil {
			return false, err.Error()
		}
	case "load":
		var paths []string
		for _, f := range c.Files {
			paths = append(paths, f+".mg")
		}
		if err := in.Load(strings.Join(paths, ",")); err != nil {
			return false, err.Error()
		}
	case "pop":
		in.Pop()
	}
	return true, ""
}

// freshReplay builds a new interpreter that has loaded only the live definitions, in order.
func freshReplay(lib ILib, dir string, frags [][]string, buffer []string) *interpreter.Interpreter {
	var out bytes.Buffer
	in := interpreter.New(&out, dir, nil)
	for _, fs := range frags {
		applyICmd(in, lib, ICmd{Ev: "load", Files: fs})
	}
	for _, t := range buffer {
		applyICmd(in, lib, ICmd{Ev: "define", Text: t})
	}
	return in
}

func replayIHistory(lib ILib, h IHistory, dir string) (events []any) {
	reset := map[string]any{"ev": "reset", "base": "i", "id": fmt.Sprint(h.ID), "files": lib.Files, "texts": lib.Texts}
	events = append(events, reset)
	defer func() {
		if r := recover(); r != nil {
			events = append(events, map[string]any{"ev": "panic", "err": fmt.Sprint(r)})
		}
	}()
	var out bytes.Buffer
	in := interpreter.New(&out, dir, nil)
	preds := libPreds(lib)
	// the live definitions, maintained by the stack discipline of spec/Interpreter.tla from the observed outcomes
	var frags [][]string
	var buffer []string
	for _, c := range h.Cmds {
		// what a fresh interpreter holding only the live definitions answers to the same command
		fresh := freshReplay(lib, dir, frags, buffer)
		freshOK, _ := applyICmd(fresh, lib, c)
		ok, errText := applyICmd(in, lib, c)
		ev := map[string]any{"ev": c.Ev, "ok": ok, "fresh_ok": freshOK}
		if errText != "" {
			ev["err"] = errText
		}
		switch c.Ev {
		case "define":
			ev["text"] = c.Text
			if ok {
				buffer = append(buffer, c.Text)
			}
		case "load":
			ev["files"] = c.Files
			buffer = nil
			if ok {
				frags = append(frags, c.Files)
			}
		case "pop":
			if len(buffer) > 0 {
				buffer = nil
			} else if len(frags) > 0 {
				frags = frags[:len(frags)-1]
			}
		}
		events = append(events, ev)
		obs := observe(in, preds)
		obs["fresh_q"] = observe(freshReplay(lib, dir, frags, buffer), preds)["q"]
		events = append(events, obs)
	}
	return events
}

// cmdInterp: vh interp --lib lib.json --in histories.ndjson --out trace.ndjson
func cmdInterp(args []string) error {
	f := parseFlags(args)
	data, err := os.ReadFile(f.str("lib", ""))
	if err != nil {
		return err
	}
	var lib ILib
	if err := jsonDecode(data, &lib); err != nil {
		return err
	}
	dir, err := os.MkdirTemp("", "vh-interp-")
	if err != nil {
		return err
	}
	defer os.RemoveAll(dir)
	for name, cs := range lib.Files {
		if err := os.WriteFile(filepath.Join(dir, name+".mg"), []byte(clausesText(cs)), 0o644); err != nil {
			return err
		}
	}
	return parallelMapMulti(f.str("in", "-"), f.str("out", "-"), f.int("workers", 0), func(line []byte) ([]any, error) {
		var h IHistory
		if err := jsonDecode(line, &h); err != nil {
			return nil, err
		}
		return replayIHistory(lib, h, dir), nil
	})
}

func init() { commands["interp"] = cmdInterp }
