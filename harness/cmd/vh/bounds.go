package main

import (
	"fmt"
	"sort"
	"strings"

	"codeberg.org/TauCeti/mangle-go/analysis"
	"codeberg.org/TauCeti/mangle-go/ast"
	"codeberg.org/TauCeti/mangle-go/builtin"
	"codeberg.org/TauCeti/mangle-go/engine"
	"codeberg.org/TauCeti/mangle-go/factstore"
	"codeberg.org/TauCeti/mangle-go/parse"
)

// Declared bounds (C11, spec/BoundsGen.tla, spec/Trace_Bounds.tla).
type BCase struct {
	ID      any    `json:"id"`
	T1      any    `json:"t1"`
	T2      any    `json:"t2"`
	T1b     []any  `json:"t1b"` // optional second bound row (empty: none)
	T2b     []any  `json:"t2b"`
	Tpl     string `json:"tpl"`
	Facts   []any  `json:"facts"`
	DstFact []any  `json:"dstfact"`
	Unit    []any  `json:"unit"` // constant of the unit clause in the recursive templates (%UNIT%)
}

type BFact struct {
	Pred string `json:"pred"`
	Arg  any    `json:"arg"` // value in the "cn" name encoding
	OK   bool   `json:"ok"`  // builtin.TypeChecker.CheckTypeBounds accepted the fact
	Err  string `json:"err,omitempty"`
}

type BResult struct {
	ID      any     `json:"id"`
	T1      any     `json:"t1"`
	T2      any     `json:"t2"`
	T1b     []any   `json:"t1b"`
	T2b     []any   `json:"t2b"`
	Unit    []any   `json:"unit,omitempty"`
	Tpl     string  `json:"tpl"`
	Facts   []any   `json:"facts"`
	DstFact []any   `json:"dstfact"`
	Text    string  `json:"text"`
	Outcome string  `json:"outcome"` // analysis_err | eval_err | ok | panic | parse_err
	Err     string  `json:"err,omitempty"`
	Stored  []BFact `json:"stored"`
}

func tyText(x any) string { return tyExpr(x).String() }

// constText renders a constant of the type family ("cn" names) as source text.
func constText(x any) string {
	c := tyConst(x)
	return constSource(c)
}

func constSource(c ast.Constant) string {
	switch c.Type {
	case ast.PairShape:
		a, b, _ := c.PairValue()
		return "fn:pair(" + constSource(a) + ", " + constSource(b) + ")"
	case ast.ListShape:
		var parts []string
		c.ListValues(func(e ast.Constant) error { parts = append(parts, constSource(e)); return nil }, func() error { return nil })
		return "[" + strings.Join(parts, ", ") + "]"
	case ast.MapShape:
		var parts []string
		c.MapValues(func(k, v ast.Constant) error { parts = append(parts, constSource(k)+": "+constSource(v)); return nil }, func() error { return nil })
		if len(parts) == 0 {
			return "fn:map()"
		}
		return "[" + strings.Join(parts, ", ") + "]"
	case ast.StructShape:
		var parts []string
		c.StructValues(func(k, v ast.Constant) error { parts = append(parts, constSource(k)+": "+constSource(v)); return nil }, func() error { return nil })
		return "{" + strings.Join(parts, ", ") + "}"
	}
	return c.String()
}

var boundsTemplates = map[string]string{
	"copy":             "dst(X) :- src(X).",
	"pair_with_string": "dst(Y) :- src(X), Y = fn:pair(X, \"s\").",
	"fst":              "dst(X) :- src(P), :match_pair(P, X, _).",
	"snd":              "dst(Y) :- src(P), :match_pair(P, _, Y).",
	"plus1":            "dst(Y) :- src(X), Y = fn:plus(X, 1).",
	"join_other":       "dst(X) :- src(X), other(X).",
	"list_of":          "dst(Y) :- src(X), Y = fn:list(X, X).",
	"member":           "dst(X) :- src(L), :list:member(X, L).",
	"cons_self":        "dst(Y) :- src(L), Y = fn:list:cons(1, L).",
	"name_to_string":   "dst(Y) :- src(X), Y = fn:name:to_string(X).",
	"struct_get_a":     "dst(Y) :- src(S), Y = fn:struct:get(S, /a).",
	"map_of":           "dst(Y) :- src(X), Y = fn:map(\"k\", X).",
	"any_then_src":     "dst(X) :- wide(X), src(X).",
	"name_then_src":    "dst(X) :- names(X), src(X).",
	"src_then_any":     "dst(X) :- src(X), wide(X).",
	"src_then_name":    "dst(X) :- src(X), names(X).",
	"two_srcs":         "dst(X) :- wide(X), src(X), src(X).",
	// undeclared predicates in a recursion cycle, the first with a unit clause; both lexical name orders, consumer
	// named before (dst) and after (zdst is a second declared consumer) the cycle's predicates
	"mutual_ab":      "origin(%UNIT%).\norigin(X) :- reflect(X).\norigin(Y) :- src(Y).\nreflect(X) :- origin(X).\ndst(X) :- origin(X), reflect(X).",
	"mutual_ba":      "reflect(%UNIT%).\nreflect(X) :- origin(X).\nreflect(Y) :- src(Y).\norigin(X) :- reflect(X).\ndst(X) :- reflect(X), origin(X).",
	"mutual_ab_zdst": "origin(%UNIT%).\norigin(X) :- reflect(X).\norigin(Y) :- src(Y).\nreflect(X) :- origin(X).\ndst(X) :- reflect(X), origin(X).",
	"mutual_ba_zdst": "reflect(%UNIT%).\nreflect(X) :- origin(X).\nreflect(Y) :- src(Y).\norigin(X) :- reflect(X).\ndst(X) :- origin(X), reflect(X).",
	"selfrec":        "origin(%UNIT%).\norigin(X) :- origin(X), src(X).\norigin(Y) :- src(Y).\ndst(X) :- origin(X).",
	"chain3":         "aa(%UNIT%).\naa(X) :- cc(X).\nbb(X) :- aa(X).\ncc(X) :- bb(X).\ncc(Y) :- src(Y).\ndst(X) :- aa(X), bb(X), cc(X).",
	// a (negated) name-prefix test refines a union- or prefix-typed variable
	"neg_prefix_below": "dst(X) :- src(X), !:match_prefix(X, /foo/a).",
	"neg_prefix_eq":    "dst(X) :- src(X), !:match_prefix(X, /foo).",
	"pos_prefix_below": "dst(X) :- src(X), :match_prefix(X, /foo/a).",
	"pos_prefix_eq":    "dst(X) :- src(X), :match_prefix(X, /foo).",
	"neg_prefix_other": "dst(X) :- src(X), !:match_prefix(X, /bar).",
	// literals that carry no (or only negative) type information
	"ne_nums":       "dst(X) :- src(X), nums(Y), X != Y.",
	"ne_const_name": "dst(X) :- src(X), X != /foo/a.",
	"ne_const_num":  "dst(X) :- src(X), X != 7.",
	"neg_nums":      "dst(X) :- src(X), !nums(X).",
	// list construction from a typed head / element, list destructuring
	"cons_head_var":   "dst(L) :- src(S), L = fn:list:cons(S, [1]).",
	"append_var":      "dst(L) :- src(S), L = fn:list:append([1], S).",
	"match_cons_head": "dst(H) :- src(L), :match_cons(L, H, T).",
	"match_cons_tail": "dst(T) :- src(L), :match_cons(L, H, T).",
	// a name prefix that is spelled like a base type
	"prefix_number": "dst(X) :- src(X), :match_prefix(X, /number).",
	// the head argument has input mode (the declaration of dst gets descr [mode("+")])
	"copy_modein": "dst(X) :- src(X).",
	// a join of two binary predicates: every column of a row of p2 is feasible for some row, no row as a whole
	"two_col_rows": "Decl q2(X, Y) bound [/foo, /foo/c].\nDecl p2(X, Y) bound [/foo/b, /name] bound [/foo/c, /foo/c].\nq2(/foo/b/1, /foo/c/2). p2(/foo/b/1, /foo/c/2).\ndst(X) :- q2(X, Y), p2(X, Y).",
	// a tagged union: the tag of one variant with the fields of another
	"tagged_fact": "Decl tg(X) bound [fn:TaggedUnion(/kind, /a, fn:Struct(/x, /number), /b, fn:Struct(/y, /string))].\ntg({/kind: /a, /x: 1}). tg({/kind: /b, /x: 1}).\ndst(X) :- src(X).",
	"none":        "",
}

func boundsText(c BCase) string {
	var sb strings.Builder
	row2 := func(t []any) string {
		if len(t) == 0 {
			return ""
		}
		return fmt.Sprintf(" bound [%s]", tyText(any(t)))
	}
	fmt.Fprintf(&sb, "Decl src(X) bound [%s]%s.\n", tyText(c.T1), row2(c.T1b))
	if strings.HasSuffix(c.Tpl, "_modein") {
		fmt.Fprintf(&sb, "Decl dst(X) descr [mode(\"+\")] bound [%s]%s.\n", tyText(c.T2), row2(c.T2b))
	} else {
		fmt.Fprintf(&sb, "Decl dst(X) bound [%s]%s.\n", tyText(c.T2), row2(c.T2b))
	}
	if strings.Contains(boundsTemplates[c.Tpl], "nums(") {
		sb.WriteString("Decl nums(X) bound [/number].\nnums(2).\n")
	}
	if strings.Contains(boundsTemplates[c.Tpl], "wide(") {
		sb.WriteString("Decl wide(X) bound [/any].\nwide(1). wide(\"a\"). wide(/foo/a). wide(/bar/b). wide(/foobar/x). wide(fn:pair(1, \"a\")). wide([1, 0]).\n")
	}
	if strings.Contains(boundsTemplates[c.Tpl], "names(") {
		sb.WriteString("Decl names(X) bound [/name].\nnames(/foo/a). names(/bar/b). names(/foobar/x). names(/bar).\n")
	}
	if c.Tpl == "join_other" {
		sb.WriteString("Decl other(X) bound [/any].\nother(1). other(\"a\"). other(/foo/a).\n")
	}
	for _, f := range c.Facts {
		fmt.Fprintf(&sb, "src(%s).\n", constText(f))
	}
	if len(c.DstFact) > 0 {
		fmt.Fprintf(&sb, "dst(%s).\n", constText(c.DstFact))
	}
	if t := boundsTemplates[c.Tpl]; t != "" {
		if len(c.Unit) > 0 {
			t = strings.ReplaceAll(t, "%UNIT%", constText(any(c.Unit)))
		}
		sb.WriteString(t + "\n")
	}
	return sb.String()
}

// toCN renders an ast constant in the type-family encoding (names as ["cn", parts]).
func toCN(c ast.Constant) any {
	switch c.Type {
	case ast.NameType:
		parts := []any{}
		for _, p := range strings.Split(strings.TrimPrefix(c.Symbol, "/"), "/") {
			parts = append(parts, p)
		}
		return []any{"cn", parts}
	case ast.NumberType:
		return []any{"n", c.NumValue}
	case ast.StringType:
		return []any{"s", c.Symbol}
	case ast.Float64Type:
		return []any{"f", c.String()}
	case ast.PairShape:
		a, b, _ := c.PairValue()
		return []any{"pair", toCN(a), toCN(b)}
	case ast.ListShape:
		out := []any{}
		c.ListValues(func(e ast.Constant) error { out = append(out, toCN(e)); return nil }, func() error { return nil })
		return []any{"list", out}
	case ast.MapShape:
		out := []any{}
		c.MapValues(func(k, v ast.Constant) error { out = append(out, []any{toCN(k), toCN(v)}); return nil }, func() error { return nil })
		return []any{"map", out}
	case ast.StructShape:
		out := []any{}
		c.StructValues(func(k, v ast.Constant) error { out = append(out, []any{toCN(k), toCN(v)}); return nil }, func() error { return nil })
		return []any{"struct", out}
	}
	return []any{"other", c.String()}
}

func runBounds(c BCase) (res BResult) {
	res = BResult{ID: c.ID, T1: c.T1, T2: c.T2, T1b: c.T1b, T2b: c.T2b, Unit: c.Unit, Tpl: c.Tpl, Facts: c.Facts, DstFact: c.DstFact, Stored: []BFact{}}
	if res.T1b == nil {
		res.T1b = []any{}
	}
	if res.T2b == nil {
		res.T2b = []any{}
	}
	if res.Facts == nil {
		res.Facts = []any{}
	}
	if res.DstFact == nil {
		res.DstFact = []any{}
	}
	defer func() {
		if r := recover(); r != nil {
			res.Outcome, res.Err = "panic", fmt.Sprint(r)
		}
	}()
	res.Text = boundsText(c)
	unit, err := parse.Unit(strings.NewReader(res.Text))
	if err != nil {
		res.Outcome, res.Err = "parse_err", err.Error()
		return
	}
	info, err := analysis.AnalyzeAndCheckBounds([]parse.SourceUnit{unit}, nil, analysis.ErrorForBoundsMismatch)
	if err != nil {
		res.Outcome, res.Err = "analysis_err", err.Error()
		return
	}
	store := factstore.NewMultiIndexedArrayInMemoryStore()
	if err := engine.EvalProgram(info, store, engine.WithCreatedFactLimit(10000)); err != nil {
		res.Outcome, res.Err = "eval_err", err.Error()
		return
	}
	res.Outcome = "ok"
	tc := builtin.NewTypeCheckerFromDesugared(info.Decls)
	for _, p := range store.ListPredicates() {
		if _, declared := info.Decls[p]; !declared || isInternal(p.Symbol) {
			continue
		}
		store.GetFacts(ast.NewQuery(p), func(a ast.Atom) error {
			bf := BFact{Pred: p.Symbol, OK: true, Arg: []any{"other", a.String()}}
			if len(a.Args) == 1 {
				if k, ok := a.Args[0].(ast.Constant); ok {
					bf.Arg = toCN(k)
				}
			}
			if err := tc.CheckTypeBounds(a); err != nil {
				bf.OK, bf.Err = false, err.Error()
			}
			res.Stored = append(res.Stored, bf)
			return nil
		})
	}
	sort.Slice(res.Stored, func(i, j int) bool { return fmt.Sprint(res.Stored[i]) < fmt.Sprint(res.Stored[j]) })
	return
}

// cmdBounds: vh bounds --in cases.ndjson --out results.ndjson
func cmdBounds(args []string) error {
	f := parseFlags(args)
	return parallelMap(f.str("in", "-"), f.str("out", "-"), f.int("workers", 0), func(line []byte) (any, error) {
		var c BCase
		if err := jsonDecode(line, &c); err != nil {
			return nil, err
		}
		return runBounds(c), nil
	})
}

func init() { commands["bounds"] = cmdBounds }
