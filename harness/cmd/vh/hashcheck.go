package main

import (
	"encoding/json"
	"os"
	"strconv"

	"verif/harness/mgjson"
)

// cmdHashCheck: for each atom of "missing", report a distinct atom of "present" with the same
// Atom.Hash() (the attribution test of known finding F8: hash-keyed stores conflate such atoms).
// Input (stdin): {"present":[atom..],"missing":[atom..]}; output: {"collisions":[[missing,present]|null ..]}
func cmdHashCheck(args []string) error {
	var in struct {
		Present []mgjson.Atom `json:"present"`
		Missing []mgjson.Atom `json:"missing"`
	}
	dec := json.NewDecoder(os.Stdin)
	dec.UseNumber()
	if err := dec.Decode(&in); err != nil {
		return err
	}
	byHash := map[uint64][]int{}
	for i, a := range in.Present {
		h := mgjson.ASTAtom(a).Hash()
		byHash[h] = append(byHash[h], i)
	}
	out := make([]any, len(in.Missing))
	hashes := make([]string, len(in.Missing))
	for i, m := range in.Missing {
		am := mgjson.ASTAtom(m)
		hashes[i] = strconv.FormatUint(am.Hash(), 10)
		for _, j := range byHash[am.Hash()] {
			if !mgjson.ASTAtom(in.Present[j]).Equals(am) {
				out[i] = []any{m, in.Present[j]}
				break
			}
		}
	}
	return json.NewEncoder(os.Stdout).Encode(map[string]any{"collisions": out, "hashes": hashes})
}

func init() { commands["hashcheck"] = cmdHashCheck }
