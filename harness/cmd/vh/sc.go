package main

import (
	"bytes"
	"compress/gzip"
	"fmt"
	"math/rand"

	"codeberg.org/TauCeti/mangle-go/ast"
	"codeberg.org/TauCeti/mangle-go/factstore"
	"github.com/klauspost/compress/zstd"
	"verif/harness/mgjson"
)

// ScCase: one save/reload experiment for the simple-column format (C19).
type ScCase struct {
	ID     any           `json:"id"`
	Facts  []mgjson.Atom `json:"facts"`
	Empty  [][]any       `json:"empty,omitempty"` // predicates listed with zero facts: [sym, arity]
	Det    bool          `json:"det"`
	Format string        `json:"format"` // plain | gzip | zstd
}

type ScLazy struct {
	Pat mgjson.Atom   `json:"pat"`
	R   []mgjson.Atom `json:"r"`
	Err string        `json:"err"`
}

type ScResult struct {
	ID        any           `json:"id"`
	Facts     []mgjson.Atom `json:"facts"`
	Empty     [][]any       `json:"empty"`
	Det       bool          `json:"det"`
	Format    string        `json:"format"`
	WriteErr  string        `json:"write_err"`
	Reread    []mgjson.Atom `json:"reread"`
	RereadErr string        `json:"reread_err"`
	Lazy      []ScLazy      `json:"lazy"`
	DetEqual  bool          `json:"det_equal"`
	Bytes     int           `json:"bytes"`
	Text      string        `json:"text,omitempty"`
}

func scWrite(c ScCase, kind string, rnd *rand.Rand) ([]byte, error) {
	store := newStore(kind)
	for _, i := range rnd.Perm(len(c.Facts)) {
		store.Add(mgjson.ASTAtom(c.Facts[i]))
	}
	for _, e := range c.Empty {
		// a predicate that is listed but has no facts: add a fact and remove it again
		ar := int(mgjson.Int(e[1]))
		args := make([]any, ar)
		for i := range args {
			args[i] = []any{"n", 424242}
		}
		a := mgjson.ASTAtom(mgjson.Atom{P: e[0].(string), A: args})
		if rs, ok := store.(factstore.FactStoreWithRemove); ok {
			store.Add(a)
			rs.Remove(a)
		}
	}
	var raw bytes.Buffer
	sc := factstore.SimpleColumn{Deterministic: c.Det}
	if err := sc.WriteTo(store, &raw); err != nil {
		return nil, err
	}
	return raw.Bytes(), nil
}

func compress(format string, raw []byte) ([]byte, error) {
	var out bytes.Buffer
	switch format {
	case "gzip":
		w := gzip.NewWriter(&out)
		w.Write(raw)
		w.Close()
	case "zstd":
		w, err := zstd.NewWriter(&out)
		if err != nil {
			return nil, err
		}
		w.Write(raw)
		w.Close()
	default:
		return raw, nil
	}
	return out.Bytes(), nil
}

func runSc(c ScCase) (res ScResult) {
	res = ScResult{ID: c.ID, Facts: c.Facts, Empty: c.Empty, Det: c.Det, Format: c.Format, Reread: []mgjson.Atom{}, Lazy: []ScLazy{}}
	if res.Facts == nil {
		res.Facts = []mgjson.Atom{}
	}
	if res.Empty == nil {
		res.Empty = [][]any{}
	}
	defer func() {
		if r := recover(); r != nil {
			res.RereadErr = "panic: " + fmt.Sprint(r)
		}
	}()
	h := int64(len(c.Facts))
	for _, f := range c.Facts {
		for _, b := range []byte(mgjson.Key(f)) {
			h = h*131 + int64(b)
		}
	}
	rnd := rand.New(rand.NewSource(h))
	// The facts are held in the store that compares atoms structurally; the hash-keyed stores conflate
	// atoms with equal hashes (known finding F8, judged under C06), which is not what C19 is about.
	kinds := []string{"array", "array", "array", "array"}
	raw, err := scWrite(c, kinds[rnd.Intn(4)], rnd)
	if err != nil {
		res.WriteErr = err.Error()
		return
	}
	res.Bytes = len(raw)
	if len(raw) < 2000 {
		res.Text = string(raw)
	}
	if c.Det {
		// two deterministic writes of the same SET of facts (other insertion order, other store kind);
		// listed-but-empty predicates are left out: they are not part of the set of facts
		d := c
		d.Empty = nil
		raw1, err1 := scWrite(d, kinds[rnd.Intn(4)], rnd)
		raw2, err2 := scWrite(d, kinds[rnd.Intn(4)], rnd)
		res.DetEqual = err1 == nil && err2 == nil && bytes.Equal(raw1, raw2)
	}
	data, err := compress(c.Format, raw)
	if err != nil {
		res.WriteErr = err.Error()
		return
	}
	// eager
	var rd = bytes.NewReader(data)
	target := factstore.NewMultiIndexedArrayInMemoryStore()
	var rerr error
	switch c.Format {
	case "gzip":
		zr, err := gzip.NewReader(rd)
		if err != nil {
			rerr = err
		} else {
			rerr = factstore.SimpleColumn{}.ReadInto(zr, target)
		}
	case "zstd":
		zr, err := zstd.NewReader(rd)
		if err != nil {
			rerr = err
		} else {
			rerr = factstore.SimpleColumn{}.ReadInto(zr, target)
			zr.Close()
		}
	default:
		rerr = factstore.SimpleColumn{}.ReadInto(rd, target)
	}
	if rerr != nil {
		res.RereadErr = rerr.Error()
	}
	res.Reread = dumpStoreAll(target)
	// lazy
	var lazy *factstore.SimpleColumnStore
	switch c.Format {
	case "gzip":
		lazy, err = factstore.NewSimpleColumnStoreFromGzipBytes(data)
	case "zstd":
		lazy, err = factstore.NewSimpleColumnStoreFromZstdBytes(data)
	default:
		lazy, err = factstore.NewSimpleColumnStoreFromBytes(data)
	}
	if err != nil {
		res.Lazy = append(res.Lazy, ScLazy{Pat: mgjson.Atom{P: "open", A: []any{}}, R: []mgjson.Atom{}, Err: err.Error()})
		return
	}
	pats := scPatterns(c, rnd)
	ask := func(st factstore.ReadOnlyFactStore) {
		for _, pat := range pats {
			l := ScLazy{Pat: pat, R: []mgjson.Atom{}}
			if err := st.GetFacts(mgjson.ASTAtom(pat), func(a ast.Atom) error {
				l.R = append(l.R, mgjson.FromAtom(a))
				return nil
			}); err != nil {
				l.Err = err.Error()
			}
			res.Lazy = append(res.Lazy, l)
		}
	}
	ask(lazy)
	// "writing any fact store": the lazy view itself is saved again (deterministically), the new file is read back
	// eagerly, and the lazy view must still answer as before
	var again bytes.Buffer
	if err := (factstore.SimpleColumn{Deterministic: true}).WriteTo(lazy, &again); err != nil {
		res.Lazy = append(res.Lazy, ScLazy{Pat: mgjson.Atom{P: "resave", A: []any{}}, R: []mgjson.Atom{}, Err: err.Error()})
		return
	}
	ask(lazy)
	resaved := factstore.NewMultiIndexedArrayInMemoryStore()
	if err := (factstore.SimpleColumn{}).ReadInto(bytes.NewReader(again.Bytes()), resaved); err != nil {
		res.Lazy = append(res.Lazy, ScLazy{Pat: mgjson.Atom{P: "reread_resaved", A: []any{}}, R: []mgjson.Atom{}, Err: err.Error()})
		return
	}
	ask(resaved)
	return
}

func dumpStoreAll(s factstore.ReadOnlyFactStore) []mgjson.Atom {
	out := []mgjson.Atom{}
	seen := map[ast.PredicateSym]bool{}
	for _, p := range s.ListPredicates() {
		if seen[p] {
			continue
		}
		seen[p] = true
		s.GetFacts(ast.NewQuery(p), func(a ast.Atom) error { out = append(out, mgjson.FromAtom(a)); return nil })
	}
	return out
}

// scPatterns: for every predicate the all-variables query, queries with a constant in each single
// column (taken from the facts), a constant that no fact has, plus an unknown predicate.
func scPatterns(c ScCase, rnd *rand.Rand) []mgjson.Atom {
	var pats []mgjson.Atom
	seen := map[string]bool{}
	add := func(p mgjson.Atom) {
		k := mgjson.Key(p)
		if !seen[k] {
			seen[k] = true
			pats = append(pats, p)
		}
	}
	vars := func(p string, n int) mgjson.Atom {
		a := mgjson.Atom{P: p, A: make([]any, n)}
		for i := range a.A {
			a.A[i] = []any{"v", fmt.Sprintf("X%d", i)}
		}
		return a
	}
	for _, f := range c.Facts {
		add(vars(f.P, len(f.A)))
		for j := range f.A {
			p := vars(f.P, len(f.A))
			p.A[j] = f.A[j]
			add(p)
			q := vars(f.P, len(f.A))
			q.A[j] = []any{"n", 987654}
			add(q)
		}
		if len(f.A) > 1 {
			add(f) // fully ground
		}
	}
	for _, e := range c.Empty {
		add(vars(e[0].(string), int(mgjson.Int(e[1]))))
	}
	add(vars("nosuchpred", 1))
	if len(pats) > 40 {
		rnd.Shuffle(len(pats), func(i, j int) { pats[i], pats[j] = pats[j], pats[i] })
		pats = pats[:40]
	}
	return pats
}

// cmdSc: vh sc --in cases.ndjson --out results.ndjson
func cmdSc(args []string) error {
	f := parseFlags(args)
	return parallelMap(f.str("in", "-"), f.str("out", "-"), f.int("workers", 0), func(line []byte) (any, error) {
		var c ScCase
		if err := jsonDecode(line, &c); err != nil {
			return nil, err
		}
		return runSc(c), nil
	})
}

func init() { commands["sc"] = cmdSc }
