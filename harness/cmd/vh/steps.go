//go:build verif

package main

import (
	"encoding/json"
	"fmt"
	"sort"
	"strings"

	"codeberg.org/TauCeti/mangle-go/ast"
	"codeberg.org/TauCeti/mangle-go/engine"
	"codeberg.org/TauCeti/mangle-go/factstore"
	"verif/harness/mgjson"
)

// stepEvent is one line of a step trace: what the engine's verif hook reported at the end of
// one critical section of the semi-naive evaluation. Facts of internal (rewriter-made)
// predicates are only counted: their names and argument order are an implementation choice.
type stepEvent struct {
	Ev      string        `json:"ev"`
	Stratum []string      `json:"stratum"`
	Store   []mgjson.Atom `json:"store"`
	Delta   []mgjson.Atom `json:"delta"`
	HS      int           `json:"hs"`
	HD      int           `json:"hd"`
	Outcome string        `json:"outcome,omitempty"`
	Err     string        `json:"err,omitempty"`
}

func splitStore(s factstore.ReadOnlyFactStore) (visible []mgjson.Atom, hidden int) {
	visible = []mgjson.Atom{}
	if s == nil {
		return
	}
	seen := map[ast.PredicateSym]bool{}
	for _, p := range s.ListPredicates() {
		if seen[p] {
			continue
		}
		seen[p] = true
		s.GetFacts(ast.NewQuery(p), func(a ast.Atom) error {
			if isInternal(p.Symbol) {
				hidden++
			} else {
				visible = append(visible, mgjson.FromAtom(a))
			}
			return nil
		})
	}
	sort.Slice(visible, func(i, j int) bool { return mgjson.Key(visible[i]) < mgjson.Key(visible[j]) })
	return
}

// cmdSteps: for every case, evaluate it once (facts preloaded into an array store, no limit
// beyond the harness default) with the tracer installed and write
//
//	{"base":1, id, rules, edb}   then one line per engine step   then {"ev":"Return", outcome}.
func cmdSteps(args []string) error {
	f := parseFlags(args)
	out, err := newLineWriter(f.str("out", ""))
	if err != nil {
		return err
	}
	defer out.close()
	n := 0
	err = readLines(f.str("in", ""), func(line []byte) error {
		var c EvalCase
		if err := json.Unmarshal(line, &c); err != nil {
			return err
		}
		if c.Edb == nil {
			c.Edb = []mgjson.Atom{}
		}
		n++
		if fam := f.str("family", ""); fam != "" {
			c.Family = fam
		}
		mgjson.RatioFloats = c.Family == "agg"
		out.write(map[string]any{"base": 1, "id": c.ID, "rules": c.Rules, "edb": c.Edb, "family": c.Family, "fuel": c.Fuel})
		var events []stepEvent
		ret := stepEvent{Ev: "Return", Stratum: []string{}, Store: []mgjson.Atom{}, Delta: []mgjson.Atom{}}
		func() {
			defer func() {
				engine.VerifTracer = nil
				if r := recover(); r != nil {
					ret.Outcome, ret.Err = "panic", fmt.Sprint(r)
				}
			}()
			prep := prepare(c, false)
			if prep.outcome != "" {
				ret.Outcome, ret.Err = prep.outcome, prep.err
				return
			}
			store := newStore(f.str("store", "array"))
			for _, a := range c.Edb {
				store.Add(mgjson.ASTAtom(a))
			}
			engine.VerifTracer = func(e engine.VerifEvent) {
				ev := stepEvent{Ev: e.Name, Stratum: []string{}}
				for _, p := range e.Stratum {
					if !isInternal(p.Symbol) {
						ev.Stratum = append(ev.Stratum, p.Symbol)
					}
				}
				sort.Strings(ev.Stratum)
				ev.Store, ev.HS = splitStore(e.Store)
				ev.Delta, ev.HD = splitStore(e.Delta)
				events = append(events, ev)
			}
			err := engine.EvalProgram(prep.info, store, engine.WithCreatedFactLimit(defaultLimit))
			switch {
			case err == nil:
				ret.Outcome = "ok"
			case strings.Contains(err.Error(), "stratif"):
				ret.Outcome, ret.Err = "strat_err", err.Error()
			case strings.Contains(err.Error(), "limit"):
				ret.Outcome, ret.Err = "limit_err", err.Error()
			default:
				ret.Outcome, ret.Err = "eval_err", err.Error()
			}
			ret.Store, ret.HS = splitStore(store)
		}()
		for _, e := range events {
			out.write(e)
		}
		out.write(ret)
		return nil
	})
	fmt.Printf("steps: %d cases\n", n)
	return err
}

func init() { commands["steps"] = cmdSteps }
