package main

import (
	"encoding/hex"
	"fmt"
	"os"
	"strconv"
	"strings"

	"codeberg.org/TauCeti/mangle-go/ast"
	"codeberg.org/TauCeti/mangle-go/functional"
	"codeberg.org/TauCeti/mangle-go/parse"
	"verif/harness/mgjson"
)

// Terms (C08, C09): every value of the TLC-generated universe is built through several construction
// routes ("recipes"); Equals / Hash / String of all objects and the print->parse round trip are recorded.

type termObj struct {
	vid    int
	recipe string
	c      ast.Constant
}

// reversed-entry construction of maps / structs, lists by cons chain
func constAlt(x any) (ast.Constant, bool) {
	t := x.([]any)
	switch t[0].(string) {
	case "map", "struct":
		es := t[1].([]any)
		m := make(map[*ast.Constant]*ast.Constant)
		for i := len(es) - 1; i >= 0; i-- {
			kv := es[i].([]any)
			k, okk := constAltOrPlain(kv[0])
			v, okv := constAltOrPlain(kv[1])
			_, _ = okk, okv
			m[&k] = &v
		}
		if t[0].(string) == "map" {
			return *ast.Map(m), true
		}
		return *ast.Struct(m), true
	case "list":
		es := t[1].([]any)
		cur := ast.ListNil
		for i := len(es) - 1; i >= 0; i-- {
			h, _ := constAltOrPlain(es[i])
			tail := cur
			cur = ast.ListCons(&h, &tail)
		}
		return cur, true
	case "pair":
		a, _ := constAltOrPlain(t[1])
		b, _ := constAltOrPlain(t[2])
		return ast.Pair(&a, &b), true
	}
	return ast.Constant{}, false
}

func constAltOrPlain(x any) (ast.Constant, bool) {
	if c, ok := constAlt(x); ok {
		return c, true
	}
	return mgjson.Const(x), false
}

// exprOf builds the constructor expression (fn:pair, fn:list, fn:map, fn:struct) of a value.
func exprOf(x any) ast.BaseTerm {
	t := x.([]any)
	ap := func(f string, args []ast.BaseTerm) ast.BaseTerm {
		return ast.ApplyFn{Function: ast.FunctionSym{Symbol: f, Arity: len(args)}, Args: args}
	}
	switch t[0].(string) {
	case "pair":
		return ap("fn:pair", []ast.BaseTerm{exprOf(t[1]), exprOf(t[2])})
	case "list":
		var args []ast.BaseTerm
		for _, e := range t[1].([]any) {
			args = append(args, exprOf(e))
		}
		return ap("fn:list", args)
	case "map", "struct":
		var args []ast.BaseTerm
		for _, e := range t[1].([]any) {
			kv := e.([]any)
			args = append(args, exprOf(kv[0]), exprOf(kv[1]))
		}
		return ap("fn:"+t[0].(string), args)
	}
	return mgjson.Const(x)
}

func hexOf(c ast.Constant) string {
	// a structural dump that does not use String/Equals/Hash of the library
	return hex.EncodeToString([]byte(mgjson.Key(mgjson.FromConst(c))))
}

// cmdTerms: vh terms --in universe.json --out trace.ndjson
func cmdTerms(args []string) error {
	f := parseFlags(args)
	data, err := os.ReadFile(f.str("in", ""))
	if err != nil {
		return err
	}
	var u struct {
		Values []any `json:"values"`
	}
	if err := jsonDecode(data, &u); err != nil {
		return err
	}
	out, err := newLineWriter(f.str("out", "-"))
	if err != nil {
		return err
	}
	defer out.close()
	var objs []termObj
	type rt struct {
		vid          int
		printed      string
		parseErr     string
		reparsedKey  string
		originalKey  string
		reparsedSame bool
	}
	var rts []rt
	for vid, v := range u.Values {
		func() {
			defer func() {
				if r := recover(); r != nil {
					rts = append(rts, rt{vid: vid + 1, parseErr: fmt.Sprint("panic: ", r)})
				}
			}()
			c := mgjson.Const(v)
			objs = append(objs, termObj{vid + 1, "constructor", c})
			if alt, ok := constAlt(v); ok {
				objs = append(objs, termObj{vid + 1, "reversed-or-cons", alt})
			}
			if e := exprOf(v); e != nil {
				if _, isConst := e.(ast.Constant); !isConst {
					if ev, err := functional.EvalExpr(e, nil); err == nil {
						if ec, ok := ev.(ast.Constant); ok {
							objs = append(objs, termObj{vid + 1, "evaluated-constructor-expression", ec})
						}
					}
				}
			}
			// print -> parse -> evaluate (C09 speaks of finite floats only: NaN and the infinities have no literal)
			if k := mgjson.Key(mgjson.FromConst(c)); strings.Contains(k, `"NaN"`) || strings.Contains(k, `Inf"`) {
				return
			}
			r := rt{vid: vid + 1, printed: c.String(), originalKey: mgjson.Key(mgjson.FromConst(c))}
			term, perr := parse.BaseTerm(r.printed)
			if perr != nil {
				r.parseErr = perr.Error()
			} else if ev, eerr := functional.EvalExpr(term, nil); eerr != nil {
				r.parseErr = "eval: " + eerr.Error()
			} else if pc, ok := ev.(ast.Constant); ok {
				r.reparsedKey = mgjson.Key(mgjson.FromConst(pc))
				r.reparsedSame = pc.Equals(c)
				objs = append(objs, termObj{vid + 1, "parsed-from-printed-form", pc})
			} else {
				r.parseErr = "not a constant after evaluation"
			}
			rts = append(rts, r)
		}()
	}
	out.write(map[string]any{"ev": "header", "values": u.Values, "nobj": len(objs)})
	for i, o := range objs {
		row := make([]bool, len(objs))
		for j, p := range objs {
			row[j] = o.c.Equals(p.c)
		}
		out.write(map[string]any{"ev": "obj", "id": i + 1, "vid": o.vid, "recipe": o.recipe, "str": o.c.String(),
			"hash": strconv.FormatUint(o.c.Hash(), 10), "eq": row,
			"atom_str": ast.NewAtom("p", o.c).String(), "atom_hash": strconv.FormatUint(ast.NewAtom("p", o.c).Hash(), 10)})
	}
	for _, r := range rts {
		out.write(map[string]any{"ev": "roundtrip", "id": r.vid, "vid": r.vid, "printed": r.printed, "err": r.parseErr,
			"original": r.originalKey, "reparsed": r.reparsedKey, "equals": r.reparsedSame})
	}
	return nil
}

func init() { commands["terms"] = cmdTerms }
