package main

import (
	"fmt"
	"math"
	"math/rand"
	"sort"
	"strings"
	"time"

	"codeberg.org/TauCeti/mangle-go/analysis"
	"codeberg.org/TauCeti/mangle-go/ast"
	"codeberg.org/TauCeti/mangle-go/engine"
	"codeberg.org/TauCeti/mangle-go/factstore"
	"codeberg.org/TauCeti/mangle-go/parse"
	"verif/harness/mgjson"
)

// Temporal programs (C14, spec/TemporalSem.tla). One timeline unit is one second from teBase.
var teBase = time.Date(2024, 1, 1, 0, 0, 0, 0, time.UTC)

type TRule struct {
	H    mgjson.Atom `json:"h"`
	Ht   []any       `json:"ht"`
	Op   string      `json:"op"`
	W    []int64     `json:"w"`
	Atom mgjson.Atom `json:"atom"`
	Ann  []any       `json:"ann"`
	Lit2 *TLit       `json:"lit2,omitempty"`
	Let  []any       `json:"let,omitempty"` // optional let-transform [variable, term]
}

// TLit is the optional second body literal of a temporal rule.
type TLit struct {
	Op   string      `json:"op"`
	W    []int64     `json:"w"`
	Atom mgjson.Atom `json:"atom"`
	Ann  []any       `json:"ann"`
}

func tlitText(op string, w []int64, atom mgjson.Atom, ann []any) string {
	lit := mgjson.AtomText(atom) + annText(ann)
	if op != "none" {
		lit = fmt.Sprintf("%s[%ds, %ds] %s", opSym[op], w[0], w[1], lit)
	}
	return lit
}

type TCase struct {
	Overlap bool    `json:"overlap,omitempty"`
	ID      any     `json:"id"`
	TFacts  [][]any `json:"tfacts"` // [[atom, [lo, hi]] ...]
	Now     int64   `json:"now"`
	Rules   []TRule `json:"rules"`
}

type TVariant struct {
	Outcome string        `json:"outcome"`
	Err     string        `json:"err,omitempty"`
	Got     []mgjson.Atom `json:"got"`
	TGot    []any         `json:"tgot"`
	Cfgs    []string      `json:"cfgs"`
}

type TResult struct {
	Coalesced bool       `json:"coalesced,omitempty"`
	Overlap   bool       `json:"overlap,omitempty"`
	ID        any        `json:"id"`
	TFacts    [][]any    `json:"tfacts"`
	Now       int64      `json:"now"`
	Rules     []TRule    `json:"rules"`
	Text      string     `json:"text"`
	Variants  []TVariant `json:"variants"`
	Runs      int        `json:"runs"`
}

func tsText(i int64) string {
	return teBase.Add(time.Duration(i) * time.Second).Format("2006-01-02T15:04:05")
}

func boundText(i int64) string {
	if i == tNEG || i == tPOS {
		return "_"
	}
	return tsText(i)
}

var opSym = map[string]string{"dm": "<-", "bm": "[-", "dp": "<+", "bp": "[+"}

func annText(ann []any) string {
	switch ann[0].(string) {
	case "vars":
		return fmt.Sprintf("@[%s, %s]", ann[1], ann[2])
	case "var1":
		return fmt.Sprintf("@[%s]", ann[1])
	case "now":
		return "@[now]"
	case "const":
		return fmt.Sprintf("@[%s, %s]", boundText(mgjson.Int(ann[1])), boundText(mgjson.Int(ann[2])))
	}
	return ""
}

func tprogramText(c TCase, ruleOrder []int, factOrder []int) string {
	var sb strings.Builder
	temporal := map[string]int{}
	for _, f := range c.TFacts {
		a := mgjson.AtomOf(f[0])
		temporal[a.P] = len(a.A)
	}
	for _, r := range c.Rules {
		temporal[r.Atom.P] = len(r.Atom.A)
		if r.Lit2 != nil {
			temporal[r.Lit2.Atom.P] = len(r.Lit2.Atom.A)
		}
		if r.Ht[0].(string) != "none" {
			temporal[r.H.P] = len(r.H.A)
		}
	}
	var names []string
	for n := range temporal {
		names = append(names, n)
	}
	sort.Strings(names)
	for _, n := range names {
		args := make([]string, temporal[n])
		for i := range args {
			args[i] = fmt.Sprintf("A%d", i)
		}
		fmt.Fprintf(&sb, "Decl %s(%s) temporal.\n", n, strings.Join(args, ", "))
	}
	for _, k := range factOrder {
		f := c.TFacts[k]
		iv := f[1].([]any)
		fmt.Fprintf(&sb, "%s@[%s, %s].\n", mgjson.AtomText(mgjson.AtomOf(f[0])), boundText(mgjson.Int(iv[0])), boundText(mgjson.Int(iv[1])))
	}
	for _, k := range ruleOrder {
		r := c.Rules[k]
		lit := tlitText(r.Op, r.W, r.Atom, r.Ann)
		if r.Lit2 != nil {
			lit += ", " + tlitText(r.Lit2.Op, r.Lit2.W, r.Lit2.Atom, r.Lit2.Ann)
		}
		if len(r.Let) == 2 {
			lit += " |> let " + r.Let[0].(string) + " = " + mgjson.TermText(r.Let[1])
		}
		fmt.Fprintf(&sb, "%s%s :- %s.\n", mgjson.AtomText(r.H), annText(r.Ht), lit)
	}
	return sb.String()
}

func timeIndex(n int64) any {
	switch n {
	case math.MinInt64:
		return int64(tNEG)
	case math.MaxInt64:
		return int64(tPOS)
	}
	d := n - teBase.UnixNano()
	if d%int64(time.Second) == 0 {
		return d / int64(time.Second)
	}
	return fmt.Sprintf("off-grid:%d", n)
}

func tAtom(a ast.Atom) mgjson.Atom {
	out := mgjson.Atom{P: a.Predicate.Symbol, A: make([]any, len(a.Args))}
	for i, arg := range a.Args {
		if c, ok := arg.(ast.Constant); ok && c.Type == ast.TimeType {
			n, _ := c.TimeValue()
			out.A[i] = []any{"t", timeIndex(n)}
		} else if ok {
			out.A[i] = mgjson.FromConst(c)
		} else {
			out.A[i] = []any{"nonground", arg.String()}
		}
	}
	return out
}

func tInterval(iv ast.Interval) []any {
	lo, hi := any(int64(tNEG)), any(int64(tPOS))
	if iv.Start.Type == ast.TimestampBound {
		lo = timeIndex(iv.Start.Timestamp)
	} else if iv.Start.Type != ast.NegativeInfinityBound {
		lo = fmt.Sprintf("bound-type-%d", iv.Start.Type)
	}
	if iv.End.Type == ast.TimestampBound {
		hi = timeIndex(iv.End.Timestamp)
	} else if iv.End.Type != ast.PositiveInfinityBound {
		hi = fmt.Sprintf("bound-type-%d", iv.End.Type)
	}
	return []any{lo, hi}
}

// runTCaseCoalesced: the base facts are evaluated into the temporal store first (facts-only program), every predicate
// is coalesced through the store's API, and the rules run afterwards over the coalesced store.
func runTCaseCoalesced(c TCase, factOrder []int, storeKind string) (v TVariant) {
	defer func() {
		if r := recover(); r != nil {
			v.Outcome, v.Err = "panic", fmt.Sprint(r)
		}
	}()
	v.Got, v.TGot = []mgjson.Atom{}, []any{}
	ts := factstore.NewTemporalStore()
	store := newStore(storeKind)
	ro := make([]int, len(c.Rules))
	for i := range ro {
		ro[i] = i
	}
	for phase, text := range []string{tprogramText(c, nil, factOrder), tprogramText(c, ro, nil)} {
		unit, err := parse.Unit(strings.NewReader(text))
		if err != nil {
			v.Outcome, v.Err = "parse_err", err.Error()
			return
		}
		info, err := analysis.AnalyzeOneUnit(unit, nil)
		if err != nil {
			v.Outcome, v.Err = "analysis_err", err.Error()
			return
		}
		opts := []engine.EvalOption{engine.WithTemporalStore(ts), engine.WithEvaluationTime(teBase.Add(time.Duration(c.Now) * time.Second)), engine.WithCreatedFactLimit(10000)}
		if err := engine.EvalProgram(info, store, opts...); err != nil {
			v.Outcome, v.Err = "eval_err", err.Error()
			return
		}
		if phase == 0 {
			for _, p := range ts.ListPredicates() {
				if err := ts.Coalesce(p); err != nil {
					v.Outcome, v.Err = "eval_err", "coalesce: "+err.Error()
					return
				}
			}
		}
	}
	v.Outcome = "ok"
	for _, p := range store.ListPredicates() {
		store.GetFacts(ast.NewQuery(p), func(a ast.Atom) error { v.Got = append(v.Got, tAtom(a)); return nil })
	}
	sort.Slice(v.Got, func(i, j int) bool { return mgjson.Key(v.Got[i]) < mgjson.Key(v.Got[j]) })
	var tg []any
	for _, p := range ts.ListPredicates() {
		ts.GetAllFacts(ast.NewQuery(p), func(tf factstore.TemporalFact) error {
			tg = append(tg, []any{tAtom(tf.Atom), tInterval(tf.Interval)})
			return nil
		})
	}
	sort.Slice(tg, func(i, j int) bool { return mgjson.Key(tg[i]) < mgjson.Key(tg[j]) })
	if tg != nil {
		v.TGot = tg
	}
	return
}

func runTCase(c TCase, text string, storeKind string, determ bool) (v TVariant) {
	defer func() {
		if r := recover(); r != nil {
			v.Outcome, v.Err = "panic", fmt.Sprint(r)
		}
	}()
	v.Got, v.TGot = []mgjson.Atom{}, []any{}
	unit, err := parse.Unit(strings.NewReader(text))
	if err != nil {
		v.Outcome, v.Err = "parse_err", err.Error()
		return
	}
	info, err := analysis.AnalyzeOneUnit(unit, nil)
	if err != nil {
		v.Outcome, v.Err = "analysis_err", err.Error()
		return
	}
	store := newStore(storeKind)
	ts := factstore.NewTemporalStore()
	opts := []engine.EvalOption{engine.WithTemporalStore(ts), engine.WithEvaluationTime(teBase.Add(time.Duration(c.Now) * time.Second)), engine.WithCreatedFactLimit(10000)}
	if determ {
		opts = append(opts, engine.WithDeterministicOrder())
	}
	if err := engine.EvalProgram(info, store, opts...); err != nil {
		v.Outcome, v.Err = "eval_err", err.Error()
		return
	}
	v.Outcome = "ok"
	for _, p := range store.ListPredicates() {
		store.GetFacts(ast.NewQuery(p), func(a ast.Atom) error { v.Got = append(v.Got, tAtom(a)); return nil })
	}
	sort.Slice(v.Got, func(i, j int) bool { return mgjson.Key(v.Got[i]) < mgjson.Key(v.Got[j]) })
	var tg []any
	for _, p := range ts.ListPredicates() {
		ts.GetAllFacts(ast.NewQuery(p), func(tf factstore.TemporalFact) error {
			tg = append(tg, []any{tAtom(tf.Atom), tInterval(tf.Interval)})
			return nil
		})
	}
	sort.Slice(tg, func(i, j int) bool { return mgjson.Key(tg[i]) < mgjson.Key(tg[j]) })
	if tg != nil {
		v.TGot = tg
	}
	return
}

func runTEval(c TCase, repeat int) TResult { return runTEvalPerms(c, repeat, 0) }

// runTEvalPerms additionally runs perms pseudo-random permutations of the clauses and base facts
// (drawn from the case text, so that a run is reproducible).
func runTEvalPerms(c TCase, repeat, perms int) TResult {
	res := TResult{ID: c.ID, TFacts: c.TFacts, Now: c.Now, Rules: c.Rules, Overlap: c.Overlap}
	if res.TFacts == nil {
		res.TFacts = [][]any{}
	}
	idOrder := func(n int) []int {
		o := make([]int, n)
		for i := range o {
			o[i] = i
		}
		return o
	}
	revOrder := func(n int) []int {
		o := make([]int, n)
		for i := range o {
			o[i] = n - 1 - i
		}
		return o
	}
	res.Text = tprogramText(c, idOrder(len(c.Rules)), idOrder(len(c.TFacts)))
	texts := []struct{ name, text string }{
		{"asis", res.Text},
		{"reversed", tprogramText(c, revOrder(len(c.Rules)), revOrder(len(c.TFacts)))},
	}
	if perms > 0 {
		h := int64(c.Now)
		for _, b := range []byte(res.Text) {
			h = h*131 + int64(b)
		}
		prnd := rand.New(rand.NewSource(h))
		for k := 0; k < perms; k++ {
			texts = append(texts, struct{ name, text string }{fmt.Sprintf("perm%d", k),
				tprogramText(c, prnd.Perm(len(c.Rules)), prnd.Perm(len(c.TFacts)))})
		}
	}
	idx := map[string]int{}
	n := 0
	for rep := 0; rep < repeat; rep++ {
		for _, t := range texts {
			kind := storeKinds[n%len(storeKinds)]
			det := n%3 == 0
			n++
			v := runTCase(c, t.text, kind, det)
			res.Runs++
			cfg := fmt.Sprintf("%s:%s", t.name, kind)
			if det {
				cfg += "+det"
			}
			key := v.Outcome + "|" + mgjson.Key(v.Got) + "|" + mgjson.Key(v.TGot)
			if i, ok := idx[key]; ok {
				if len(res.Variants[i].Cfgs) < 8 {
					res.Variants[i].Cfgs = append(res.Variants[i].Cfgs, cfg)
				}
				continue
			}
			v.Cfgs = []string{cfg}
			idx[key] = len(res.Variants)
			res.Variants = append(res.Variants, v)
		}
	}
	return res
}

// runTEvalCoalesced: the coalesce-first variant under the given, the reversed and perms pseudo-random insertion orders.
func runTEvalCoalesced(c TCase, repeat, perms int) TResult {
	res := TResult{ID: c.ID, TFacts: c.TFacts, Now: c.Now, Rules: c.Rules, Coalesced: true}
	if res.TFacts == nil {
		res.TFacts = [][]any{}
	}
	n := len(c.TFacts)
	id, rev, ro := make([]int, n), make([]int, n), make([]int, len(c.Rules))
	for i := range id {
		id[i], rev[i] = i, n-1-i
	}
	for i := range ro {
		ro[i] = i
	}
	res.Text = tprogramText(c, ro, id)
	orders := [][]int{id, rev}
	h := int64(c.Now)
	for _, b := range []byte(res.Text) {
		h = h*131 + int64(b)
	}
	prnd := rand.New(rand.NewSource(h))
	for k := 0; k < perms; k++ {
		orders = append(orders, prnd.Perm(n))
	}
	idx := map[string]int{}
	k := 0
	for rep := 0; rep < repeat; rep++ {
		for oi, o := range orders {
			kind := storeKinds[k%len(storeKinds)]
			k++
			v := runTCaseCoalesced(c, o, kind)
			res.Runs++
			cfg := fmt.Sprintf("coalesced-order%d:%s", oi, kind)
			key := v.Outcome + "|" + mgjson.Key(v.Got) + "|" + mgjson.Key(v.TGot)
			if i, ok := idx[key]; ok {
				if len(res.Variants[i].Cfgs) < 8 {
					res.Variants[i].Cfgs = append(res.Variants[i].Cfgs, cfg)
				}
				continue
			}
			v.Cfgs = []string{cfg}
			idx[key] = len(res.Variants)
			res.Variants = append(res.Variants, v)
		}
	}
	return res
}

// cmdTEval: vh teval --in cases.ndjson --out results.ndjson [--repeat N]
func cmdTEval(args []string) error {
	f := parseFlags(args)
	repeat := f.int("repeat", 2)
	perms := f.int("perms", 0)
	coalesce := f.bool("coalesce")
	return parallelMap(f.str("in", "-"), f.str("out", "-"), f.int("workers", 0), func(line []byte) (any, error) {
		var c TCase
		if err := jsonDecode(line, &c); err != nil {
			return nil, err
		}
		if coalesce {
			return runTEvalCoalesced(c, repeat, perms), nil
		}
		return runTEvalPerms(c, repeat, perms), nil
	})
}

func init() { commands["teval"] = cmdTEval }

// cmdTText: vh ttext --in tcases.ndjson --out crashcases.ndjson [--perms N]
// renders temporal cases as source texts for the front-end check: every order of the stated facts when there are
// at most four, otherwise the given order, its reverse and N pseudo-random orders.
func cmdTText(args []string) error {
	f := parseFlags(args)
	perms := f.int("perms", 10)
	return parallelMapMulti(f.str("in", "-"), f.str("out", "-"), 1, func(line []byte) ([]any, error) {
		var c TCase
		if err := jsonDecode(line, &c); err != nil {
			return nil, err
		}
		n := len(c.TFacts)
		ro := make([]int, len(c.Rules))
		for i := range ro {
			ro[i] = i
		}
		var orders [][]int
		if n <= 4 {
			var rec func(cur []int, used []bool)
			rec = func(cur []int, used []bool) {
				if len(cur) == n {
					orders = append(orders, append([]int(nil), cur...))
					return
				}
				for i := 0; i < n; i++ {
					if !used[i] {
						used[i] = true
						rec(append(cur, i), used)
						used[i] = false
					}
				}
			}
			rec(nil, make([]bool, n))
		} else {
			id, rev := make([]int, n), make([]int, n)
			for i := range id {
				id[i], rev[i] = i, n-1-i
			}
			orders = append(orders, id, rev)
			h := int64(c.Now)
			for _, b := range line {
				h = h*131 + int64(b)
			}
			prnd := rand.New(rand.NewSource(h))
			for k := 0; k < perms; k++ {
				orders = append(orders, prnd.Perm(n))
			}
		}
		seen := map[string]bool{}
		var out []any
		for k, o := range orders {
			t := tprogramText(c, ro, o)
			if seen[t] {
				continue
			}
			seen[t] = true
			out = append(out, CrashCase{ID: fmt.Sprintf("%v/%d", c.ID, k), Kind: "text", Text: t})
		}
		return out, nil
	})
}

func init() { commands["ttext"] = cmdTText }
