package main

import (
	"fmt"
	"sort"
	"strings"

	"codeberg.org/TauCeti/mangle-go/analysis"
	"codeberg.org/TauCeti/mangle-go/parse"
)

// StratCase is a labelled dependency graph over predicates n0..n(k-1):
// Edges[i][j] in {"none","pos","neg"}: nj is mentioned (negated/aggregated when "neg") in a rule for ni.
type StratCase struct {
	ID    any        `json:"id"`
	Nodes []string   `json:"nodes"`
	Edges [][]string `json:"edges"`
	Style string     `json:"style"` // plain | agg | temporal
}

type StratResult struct {
	ID      any        `json:"id"`
	Nodes   []string   `json:"nodes"`
	Edges   [][]string `json:"edges"`
	Style   string     `json:"style"`
	Text    string     `json:"text"`
	Runs    int        `json:"runs"`
	Results []StratOut `json:"results"` // distinct results over the runs
}

type StratOut struct {
	Ok     bool       `json:"ok"`
	Stage  string     `json:"stage"` // which stage answered: parse | analysis | stratify | panic
	Err    string     `json:"err,omitempty"`
	Layers [][]string `json:"layers"`
	// MapOK: the returned predicate->index map agrees with the layer list
	MapOK bool `json:"map_ok"`
	Count int  `json:"count"`
}

// stratText realises the graph as a Mangle program in the given syntactic style.
func stratText(c StratCase) string {
	var sb strings.Builder
	switch c.Style {
	case "temporal", "temporalagg":
		sb.WriteString("Decl b(X) temporal.\n")
		for _, n := range c.Nodes {
			fmt.Fprintf(&sb, "Decl %s(X) temporal.\n", n)
		}
		sb.WriteString("b(1)@[2024-01-01, 2024-01-10].\n")
		for i, n := range c.Nodes {
			fmt.Fprintf(&sb, "%s(X)@[S, E] :- b(X)@[S, E].\n", n)
			for j, m := range c.Nodes {
				switch c.Edges[i][j] {
				case "pos":
					fmt.Fprintf(&sb, "%s(X)@[S, E] :- b(X)@[S, E], %s(X)@[S, E].\n", n, m)
				case "neg":
					if c.Style == "temporalagg" {
						// the negative edge is an aggregation over a temporally annotated mention
						fmt.Fprintf(&sb, "%s(C)@[2024-01-02, 2024-01-03] :- %s(X)@[2024-01-01, 2024-01-02] |> do fn:group_by(), let C = fn:count().\n", n, m)
					} else {
						fmt.Fprintf(&sb, "%s(X)@[S, E] :- b(X)@[S, E], !%s(X)@[S, E].\n", n, m)
					}
				}
			}
		}
	default:
		sb.WriteString("b(1).\n")
		// styles statedfirst / stated / aggstated: every node predicate also has a stated fact (a unit clause),
		// written before resp. after the rules
		if c.Style == "statedfirst" {
			for _, n := range c.Nodes {
				fmt.Fprintf(&sb, "%s(7).\n", n)
			}
		}
		for i, n := range c.Nodes {
			fmt.Fprintf(&sb, "%s(X) :- b(X).\n", n)
			for j, m := range c.Nodes {
				switch c.Edges[i][j] {
				case "pos":
					fmt.Fprintf(&sb, "%s(X) :- b(X), %s(X).\n", n, m)
				case "neg":
					if strings.HasPrefix(c.Style, "agg") {
						fmt.Fprintf(&sb, "%s(C) :- %s(X) |> do fn:group_by(), let C = fn:count().\n", n, m)
					} else {
						fmt.Fprintf(&sb, "%s(X) :- b(X), !%s(X).\n", n, m)
					}
				}
			}
		}
		if c.Style == "stated" || c.Style == "aggstated" {
			for _, n := range c.Nodes {
				fmt.Fprintf(&sb, "%s(7).\n", n)
			}
		}
	}
	return sb.String()
}

func runStrat(c StratCase, repeat int) (res StratResult) {
	res = StratResult{ID: c.ID, Nodes: c.Nodes, Edges: c.Edges, Style: c.Style, Text: stratText(c)}
	idx := map[string]int{}
	record := func(out StratOut) {
		res.Runs++
		if out.Layers == nil {
			out.Layers = [][]string{}
		}
		k := fmt.Sprint(out.Ok, out.Err, out.Layers, out.MapOK)
		if i, ok := idx[k]; ok {
			res.Results[i].Count++
			return
		}
		out.Count = 1
		idx[k] = len(res.Results)
		res.Results = append(res.Results, out)
	}
	// parse + analysis once per 4 calls of Stratify (Go randomises map iteration on every call)
	for r := 0; r < repeat; r += 4 {
		func() {
			defer func() {
				if p := recover(); p != nil {
					record(StratOut{Stage: "panic", Err: fmt.Sprint("panic: ", p)})
				}
			}()
			unit, err := parse.Unit(strings.NewReader(res.Text))
			if err != nil {
				record(StratOut{Stage: "parse", Err: "parse: " + err.Error()})
				return
			}
			info, err := analysis.AnalyzeOneUnit(unit, nil)
			if err != nil {
				record(StratOut{Stage: "analysis", Err: "analysis: " + err.Error()})
				return
			}
			for k := 0; k < 4 && r+k < repeat; k++ {
				strata, predToStratum, err := analysis.Stratify(analysis.Program{
					EdbPredicates: info.EdbPredicates, IdbPredicates: info.IdbPredicates, Rules: info.Rules})
				if err != nil {
					record(StratOut{Stage: "stratify", Err: "stratify: " + err.Error()})
					continue
				}
				o := StratOut{Ok: true, MapOK: true, Stage: "stratify"}
				seen := 0
				for i, layer := range strata {
					var names []string
					for sym := range layer {
						names = append(names, sym.Symbol)
						if predToStratum[sym] != i {
							o.MapOK = false
						}
						seen++
					}
					sort.Strings(names)
					o.Layers = append(o.Layers, names)
				}
				if seen != len(predToStratum) {
					o.MapOK = false
				}
				record(o)
			}
		}()
	}
	return res
}

// cmdStrat: vh strat --in graphs.ndjson --out results.ndjson [--repeat N]
func cmdStrat(args []string) error {
	f := parseFlags(args)
	repeat := f.int("repeat", 6)
	return parallelMap(f.str("in", "-"), f.str("out", "-"), f.int("workers", 0), func(line []byte) (any, error) {
		var c StratCase
		if err := jsonDecode(line, &c); err != nil {
			return nil, err
		}
		return runStrat(c, repeat), nil
	})
}

func init() { commands["strat"] = cmdStrat }
