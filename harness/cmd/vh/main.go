// Command vh is the Go side of the conformance machinery: it replays TLC-generated
// cases into the real Mangle code and records executions of the real code for
// validation by TLC.  Every subcommand reads and writes ndjson.
package main

import (
	"bufio"
	"encoding/json"
	"fmt"
	"os"
	"strconv"
)

var commands = map[string]func(args []string) error{}

func main() {
	if len(os.Args) < 2 {
		fmt.Fprintln(os.Stderr, "usage: vh <command> [args]")
		os.Exit(2)
	}
	cmd, ok := commands[os.Args[1]]
	if !ok {
		fmt.Fprintf(os.Stderr, "vh: unknown command %q\n", os.Args[1])
		os.Exit(2)
	}
	if err := cmd(os.Args[2:]); err != nil {
		fmt.Fprintf(os.Stderr, "vh %s: %v\n", os.Args[1], err)
		os.Exit(2)
	}
}

// flags is a tiny --key value parser.
type flags map[string]string

func parseFlags(args []string) flags {
	f := flags{}
	for i := 0; i < len(args); i++ {
		a := args[i]
		if len(a) > 2 && a[:2] == "--" {
			if i+1 < len(args) && (len(args[i+1]) < 2 || args[i+1][:2] != "--") {
				f[a[2:]] = args[i+1]
				i++
			} else {
				f[a[2:]] = "true"
			}
		}
	}
	return f
}

func (f flags) str(k, def string) string {
	if v, ok := f[k]; ok {
		return v
	}
	return def
}

func (f flags) int(k string, def int) int {
	if v, ok := f[k]; ok {
		n, err := strconv.Atoi(v)
		if err != nil {
			panic(err)
		}
		return n
	}
	return def
}

func (f flags) bool(k string) bool { return f[k] == "true" }

// readLines streams ndjson lines to fn.
func readLines(path string, fn func(line []byte) error) error {
	in := os.Stdin
	if path != "" && path != "-" {
		f, err := os.Open(path)
		if err != nil {
			return err
		}
		defer f.Close()
		in = f
	}
	sc := bufio.NewScanner(in)
	sc.Buffer(make([]byte, 1<<20), 1<<28)
	for sc.Scan() {
		b := sc.Bytes()
		if len(b) == 0 {
			continue
		}
		cp := make([]byte, len(b))
		copy(cp, b)
		if err := fn(cp); err != nil {
			return err
		}
	}
	return sc.Err()
}

type lineWriter struct {
	f *os.File
	w *bufio.Writer
}

func newLineWriter(path string) (*lineWriter, error) {
	f := os.Stdout
	if path != "" && path != "-" {
		var err error
		f, err = os.Create(path)
		if err != nil {
			return nil, err
		}
	}
	return &lineWriter{f: f, w: bufio.NewWriterSize(f, 1<<20)}, nil
}

func (lw *lineWriter) write(v any) {
	b, err := json.Marshal(v)
	if err != nil {
		panic(err)
	}
	lw.w.Write(b)
	lw.w.WriteByte('\n')
}

func (lw *lineWriter) close() {
	lw.w.Flush()
	if lw.f != os.Stdout {
		lw.f.Close()
	}
}

var logw = os.Stderr
