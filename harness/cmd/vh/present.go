package main

import (
	"fmt"
	"math/rand"
	"strings"

	"verif/harness/mgjson"
)

// A presentation is another way of writing the same program: clause order, fact order, variable
// names, predicate names, package wrapping. unmap maps a predicate symbol of the result back.
type presentation struct {
	name   string
	c      EvalCase
	header string // text placed before the declarations (package line)
	unmap  func(sym string) string
}

func ident(s string) string { return s }

func renameTerm(t any, vm map[string]string) any {
	a, ok := t.([]any)
	if !ok || len(a) == 0 {
		return t
	}
	switch a[0] {
	case "v":
		name := a[1].(string)
		if name == "_" {
			return t
		}
		if n, ok := vm[name]; ok {
			return []any{"v", n}
		}
		return t
	case "ap":
		args := a[2].([]any)
		out := make([]any, len(args))
		for i, x := range args {
			out[i] = renameTerm(x, vm)
		}
		return []any{"ap", a[1], out}
	}
	return t
}

func renameAtom(a mgjson.Atom, vm map[string]string, pm func(string) string) mgjson.Atom {
	out := mgjson.Atom{P: pm(a.P), A: make([]any, len(a.A))}
	for i, x := range a.A {
		out.A[i] = renameTerm(x, vm)
	}
	return out
}

func renameClause(c mgjson.Clause, vm map[string]string, pm func(string) string) mgjson.Clause {
	out := mgjson.Clause{H: renameAtom(c.H, vm, pm)}
	for _, l := range c.B {
		la := l.([]any)
		switch k := la[0].(string); k {
		case "pos", "neg":
			out.B = append(out.B, []any{k, renameAtom(mgjson.AtomOf(la[1]), vm, pm)})
		case "bi":
			args := la[2].([]any)
			na := make([]any, len(args))
			for i, x := range args {
				na[i] = renameTerm(x, vm)
			}
			out.B = append(out.B, []any{k, la[1], na})
		default:
			out.B = append(out.B, []any{k, renameTerm(la[1], vm), renameTerm(la[2], vm)})
		}
	}
	rv := func(x any) string {
		if n, ok := vm[x.(string)]; ok {
			return n
		}
		return x.(string)
	}
	switch c.T[0].(string) {
	case "none":
		out.T = c.T
	case "let":
		var stmts []any
		for _, s := range c.T[1].([]any) {
			st := s.([]any)
			stmts = append(stmts, []any{rv(st[0]), renameTerm(st[1], vm)})
		}
		out.T = []any{"let", stmts}
	case "do":
		keys := []any{}
		for _, k := range c.T[1].([]any) {
			keys = append(keys, rv(k))
		}
		var stmts []any
		for _, s := range c.T[2].([]any) {
			st := s.([]any)
			args := st[2].([]any)
			na := make([]any, len(args))
			for i, x := range args {
				na[i] = renameTerm(x, vm)
			}
			stmts = append(stmts, []any{rv(st[0]), st[1], na})
		}
		out.T = []any{"do", keys, stmts}
	}
	return out
}

func clauseVars(c mgjson.Clause) []string {
	seen := map[string]bool{}
	var out []string
	var walk func(t any)
	walk = func(t any) {
		switch a := t.(type) {
		case []any:
			if len(a) == 2 && a[0] == "v" {
				if n, ok := a[1].(string); ok && n != "_" && !seen[n] {
					seen[n] = true
					out = append(out, n)
				}
				return
			}
			for _, x := range a {
				walk(x)
			}
		case map[string]any:
			walk(a["a"])
		case mgjson.Atom:
			for _, x := range a.A {
				walk(x)
			}
		}
	}
	walk(c.H)
	for _, l := range c.B {
		walk(l)
	}
	for _, x := range c.T {
		walk(x)
	}
	// transform-defined variable names appear as plain strings
	if len(c.T) > 1 {
		switch c.T[0] {
		case "let":
			for _, s := range c.T[1].([]any) {
				n := s.([]any)[0].(string)
				if n != "_" && !seen[n] {
					seen[n] = true
					out = append(out, n)
				}
			}
		case "do":
			for _, k := range c.T[1].([]any) {
				if n := k.(string); !seen[n] {
					seen[n] = true
					out = append(out, n)
				}
			}
			for _, s := range c.T[2].([]any) {
				n := s.([]any)[0].(string)
				if n != "_" && !seen[n] {
					seen[n] = true
					out = append(out, n)
				}
			}
		}
	}
	return out
}

func permuted[T any](xs []T, rnd *rand.Rand) []T {
	out := append([]T(nil), xs...)
	rnd.Shuffle(len(out), func(i, j int) { out[i], out[j] = out[j], out[i] })
	return out
}

func reversed[T any](xs []T) []T {
	out := make([]T, len(xs))
	for i, x := range xs {
		out[len(xs)-1-i] = x
	}
	return out
}

// presentations derives the alternative presentations of a case (deterministically from its text).
func presentations(c EvalCase, seed int64) []presentation {
	rnd := rand.New(rand.NewSource(seed))
	ps := []presentation{{name: "asis", c: c, unmap: ident}}
	with := func(rules []mgjson.Clause, edb []mgjson.Atom) EvalCase {
		d := c
		d.Rules, d.Edb = rules, edb
		return d
	}
	ps = append(ps, presentation{name: "rules-reversed", c: with(reversed(c.Rules), c.Edb), unmap: ident})
	ps = append(ps, presentation{name: "rules-shuffled", c: with(permuted(c.Rules, rnd), permuted(c.Edb, rnd)), unmap: ident})
	ps = append(ps, presentation{name: "facts-reversed", c: with(c.Rules, reversed(c.Edb)), unmap: ident})
	fl := with(reversed(c.Rules), c.Edb)
	fl.factsLast = true
	ps = append(ps, presentation{name: "facts-after-rules", c: fl, unmap: ident})
	// consistent variable renaming, a different bijection per rule
	var rr []mgjson.Clause
	for _, r := range c.Rules {
		vs := clauseVars(r)
		vm := map[string]string{}
		for i, v := range permuted(vs, rnd) {
			vm[v] = fmt.Sprintf("V%c%d", 'A'+rune(i%26), i)
		}
		rr = append(rr, renameClause(r, vm, ident))
	}
	ps = append(ps, presentation{name: "vars-renamed", c: with(rr, c.Edb), unmap: ident})
	// predicate renaming (reverses the lexical order of the symbols, which the deterministic mode sorts by)
	pm := func(s string) string { return "z_" + s + "_r" }
	var pr []mgjson.Clause
	for _, r := range c.Rules {
		pr = append(pr, renameClause(r, map[string]string{}, pm))
	}
	var pe []mgjson.Atom
	for _, f := range c.Edb {
		pe = append(pe, renameAtom(f, map[string]string{}, pm))
	}
	ps = append(ps, presentation{name: "preds-renamed", c: with(pr, pe), unmap: func(s string) string {
		return strings.TrimSuffix(strings.TrimPrefix(s, "z_"), "_r")
	}})
	// package wrapping
	ps = append(ps, presentation{name: "package", c: c, header: "Package pk!\n", unmap: func(s string) string {
		return strings.TrimPrefix(s, "pk.")
	}})
	return ps
}
