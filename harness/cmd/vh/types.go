package main

import (
	"fmt"
	"math/rand"
	"os"
	"strings"

	"codeberg.org/TauCeti/mangle-go/ast"
	"codeberg.org/TauCeti/mangle-go/symbols"
	"verif/harness/mgjson"
)

// Types (C12): conformance, bounds and membership of the real library over a TLC-generated type
// space and witness universe (spec/TypeGen.tla, spec/Trace_Types.tla).

// tyConst converts a universe constant; names of this family carry their parts: ["cn",["foo","a"]].
func tyConst(x any) ast.Constant {
	t := x.([]any)
	switch t[0].(string) {
	case "cn":
		var parts []string
		for _, p := range t[1].([]any) {
			parts = append(parts, p.(string))
		}
		c, err := ast.Name("/" + strings.Join(parts, "/"))
		if err != nil {
			panic(err)
		}
		return c
	case "pair":
		a, b := tyConst(t[1]), tyConst(t[2])
		return ast.Pair(&a, &b)
	case "list":
		var cs []ast.Constant
		for _, e := range t[1].([]any) {
			cs = append(cs, tyConst(e))
		}
		return ast.List(cs)
	case "map", "struct":
		m := make(map[*ast.Constant]*ast.Constant)
		for _, e := range t[1].([]any) {
			kv := e.([]any)
			k, v := tyConst(kv[0]), tyConst(kv[1])
			m[&k] = &v
		}
		if t[0].(string) == "map" {
			return *ast.Map(m)
		}
		return *ast.Struct(m)
	}
	return mgjson.Const(x)
}

func nameOfParts(x any) ast.Constant {
	var parts []string
	for _, p := range x.([]any) {
		parts = append(parts, p.(string))
	}
	c, err := ast.Name("/" + strings.Join(parts, "/"))
	if err != nil {
		panic(err)
	}
	return c
}

func tyExpr(x any) ast.BaseTerm {
	t := x.([]any)
	switch t[0].(string) {
	case "ty":
		c, err := ast.Name(t[1].(string))
		if err != nil {
			panic(err)
		}
		return c
	case "pre":
		return nameOfParts(t[1])
	case "single":
		return symbols.NewSingletonType(tyConst(t[1]))
	case "union":
		var es []ast.BaseTerm
		for _, e := range t[1].([]any) {
			es = append(es, tyExpr(e))
		}
		return symbols.NewUnionType(es...)
	case "tpair":
		return symbols.NewPairType(tyExpr(t[1]), tyExpr(t[2]))
	case "tlist":
		return symbols.NewListType(tyExpr(t[1]))
	case "tmap":
		return symbols.NewMapType(tyExpr(t[1]), tyExpr(t[2]))
	case "ttagged":
		tag, _ := ast.Name("/" + t[1].(string))
		var pairs []ast.BaseTerm
		for _, v := range t[2].([]any) {
			vl := v.([]any)
			name, _ := ast.Name("/" + vl[0].(string))
			pairs = append(pairs, name, tyExpr([]any{"tstruct", vl[1]}))
		}
		return symbols.NewTaggedUnionType(tag, pairs...)
	case "tstruct":
		var args []ast.BaseTerm
		for _, f := range t[1].([]any) {
			fl := f.([]any)
			label, _ := ast.Name("/" + fl[0].(string))
			if fl[2].(bool) {
				args = append(args, symbols.NewOpt(label, tyExpr(fl[1])))
			} else {
				args = append(args, label, tyExpr(fl[1]))
			}
		}
		return symbols.NewStructType(args...)
	}
	panic(fmt.Sprintf("unknown type expr %v", x))
}

func hasTypeRow(expr ast.BaseTerm, universe []ast.Constant) (row []bool, err string) {
	defer func() {
		if r := recover(); r != nil {
			err = fmt.Sprint("panic: ", r)
			row = make([]bool, len(universe))
		}
	}()
	h, e := symbols.NewTypeHandle(nil, expr)
	if e != nil {
		return make([]bool, len(universe)), e.Error()
	}
	for _, c := range universe {
		row = append(row, h.HasType(c))
	}
	return row, ""
}

// cmdTypes: vh types --in space.json --out trace.ndjson [--bounds N --seed S]
func cmdTypes(args []string) error {
	f := parseFlags(args)
	data, err := os.ReadFile(f.str("in", ""))
	if err != nil {
		return err
	}
	var space struct {
		Universe []any `json:"universe"`
		Types    []any `json:"types"`
	}
	if err := jsonDecode(data, &space); err != nil {
		return err
	}
	out, err := newLineWriter(f.str("out", "-"))
	if err != nil {
		return err
	}
	defer out.close()
	var universe []ast.Constant
	for _, u := range space.Universe {
		universe = append(universe, tyConst(u))
	}
	// type expressions the library itself rejects as ill-formed (e.g. singletons of non-names) are left out
	var exprs []ast.BaseTerm
	var kept []any
	for _, t := range space.Types {
		e := tyExpr(t)
		if _, err := symbols.NewTypeHandle(nil, e); err != nil {
			continue
		}
		exprs = append(exprs, e)
		kept = append(kept, t)
	}
	space.Types = kept
	out.write(map[string]any{"ev": "header", "universe": space.Universe, "ntypes": len(exprs)})
	for i, e := range exprs {
		row, herr := hasTypeRow(e, universe)
		conf := []int{}
		func() {
			defer func() {
				if r := recover(); r != nil {
					herr += fmt.Sprint(" conforms panic: ", r)
				}
			}()
			for j, e2 := range exprs {
				if i != j && symbols.SetConforms(nil, e, e2) {
					conf = append(conf, j+1)
				}
			}
		}()
		out.write(map[string]any{"ev": "type", "id": i + 1, "type": space.Types[i], "text": e.String(), "row": row, "conf": conf, "err": herr})
	}
	rnd := rand.New(rand.NewSource(int64(f.int("seed", 1))))
	nb := f.int("bounds", 2000)
	id := len(exprs) + 1
	emitBounds := func(idx []int) {
		var ts []ast.BaseTerm
		var idx1 []int
		for _, k := range idx {
			ts = append(ts, exprs[k])
			idx1 = append(idx1, k+1)
		}
		ev := map[string]any{"ev": "bounds", "id": id, "idx": idx1}
		id++
		func() {
			defer func() {
				if r := recover(); r != nil {
					ev["err"] = fmt.Sprint("panic: ", r)
					ev["ub_row"], ev["lb_row"] = make([]bool, len(universe)), make([]bool, len(universe))
				}
			}()
			ub := symbols.UpperBound(nil, ts)
			lb := symbols.LowerBound(nil, ts)
			ev["ub"], ev["lb"] = ub.String(), lb.String()
			ev["ub_row"], _ = hasTypeRow(ub, universe)
			ev["lb_row"], _ = hasTypeRow(lb, universe)
		}()
		out.write(ev)
	}
	// all pairs, then random triples
	for i := range exprs {
		for j := range exprs {
			if i < j && (len(exprs) <= 80 || rnd.Intn(len(exprs)*len(exprs)/(2*nb)+1) == 0) {
				emitBounds([]int{i, j})
			}
		}
	}
	for k := 0; k < nb; k++ {
		emitBounds([]int{rnd.Intn(len(exprs)), rnd.Intn(len(exprs)), rnd.Intn(len(exprs))})
	}
	return nil
}

func init() { commands["types"] = cmdTypes }
