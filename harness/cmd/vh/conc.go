package main

import (
	"fmt"
	"math/rand"
	"runtime"
	"sort"
	"sync"
	"sync/atomic"

	"codeberg.org/TauCeti/mangle-go/ast"
	"codeberg.org/TauCeti/mangle-go/factstore"
	"verif/harness/mgjson"
)

// Concurrent histories for C18: P goroutines apply operations to one ConcurrentFactStore; every call
// and return is stamped by one atomic counter (call stamp before the call, return stamp after it),
// so stamp order respects real-time precedence.

type concEvent struct {
	seq int64
	ev  map[string]any
}

func concUniverse() []mgjson.Atom {
	return []mgjson.Atom{
		{P: "p", A: []any{[]any{"n", 1}}}, {P: "p", A: []any{[]any{"n", 2}}},
		{P: "p", A: []any{[]any{"n", 1}, []any{"n", 2}}}, {P: "q", A: []any{[]any{"c", "/a"}}},
	}
}

func concBase(kind string) factstore.FactStoreWithRemove {
	switch kind {
	case "simple":
		return factstore.NewSimpleInMemoryStore()
	case "indexed":
		return factstore.NewIndexedInMemoryStore()
	case "multi":
		return factstore.NewMultiIndexedInMemoryStore()
	}
	return factstore.NewMultiIndexedArrayInMemoryStore()
}

// slowBase stretches every operation of the wrapped (base) store with scheduler yields. The
// concurrent store calls its base only inside its critical sections, so a correct lock discipline
// stays linearizable however slow the base is, while a check-then-act split over two critical
// sections, or a critical section that is too short, gets a window wide enough to be observed.
type slowBase struct {
	factstore.FactStoreWithRemove
	spin int
}

func (s slowBase) pause() {
	for i := 0; i < s.spin; i++ {
		runtime.Gosched()
	}
}
func (s slowBase) Add(a ast.Atom) bool {
	s.pause()
	r := s.FactStoreWithRemove.Add(a)
	s.pause()
	return r
}
func (s slowBase) Remove(a ast.Atom) bool {
	s.pause()
	r := s.FactStoreWithRemove.Remove(a)
	s.pause()
	return r
}
func (s slowBase) Contains(a ast.Atom) bool {
	s.pause()
	r := s.FactStoreWithRemove.Contains(a)
	s.pause()
	return r
}
func (s slowBase) GetFacts(a ast.Atom, fn func(ast.Atom) error) error {
	s.pause()
	err := s.FactStoreWithRemove.GetFacts(a, fn)
	s.pause()
	return err
}
func (s slowBase) Merge(o factstore.ReadOnlyFactStore) {
	s.pause()
	s.FactStoreWithRemove.Merge(o)
	s.pause()
}

func recordConcHistory(id string, rnd *rand.Rand, procs, opsPer int) []any {
	kinds := []string{"simple", "indexed", "multi", "array"}
	kind := kinds[rnd.Intn(len(kinds))]
	base := concBase(kind)
	if spin := rnd.Intn(3); spin > 0 {
		// two thirds of the histories run on a slowed-down base store
		base = slowBase{base, spin * 3}
		kind += "+slow"
	}
	store := factstore.NewConcurrentFactStore(base)
	u := concUniverse()
	var names []string
	for p := 0; p < procs; p++ {
		names = append(names, fmt.Sprintf("g%d", p))
	}
	// pre-draw the operations so that the goroutines do nothing but call
	type op struct {
		k    string
		a    mgjson.Atom
		from []mgjson.Atom
	}
	plans := make([][]op, procs)
	for p := range plans {
		for i := 0; i < opsPer; i++ {
			o := op{a: u[rnd.Intn(len(u))]}
			switch r := rnd.Intn(12); {
			case r == 10:
				o.k = "list"
			case r == 11:
				o.k = "count"
			case r < 3:
				o.k = "add"
			case r < 5:
				o.k = "rm"
			case r < 7:
				o.k = "has"
			case r < 9:
				o.k = "query"
				pat := mgjson.Atom{P: o.a.P, A: make([]any, len(o.a.A))}
				for j := range pat.A {
					pat.A[j] = []any{"v", fmt.Sprintf("X%d", j)}
				}
				o.a = pat
			default:
				o.k = "merge"
				o.from = []mgjson.Atom{u[rnd.Intn(len(u))], u[rnd.Intn(len(u))]}
			}
			plans[p] = append(plans[p], o)
		}
	}
	var clock int64
	var mu sync.Mutex
	var events []concEvent
	var wg sync.WaitGroup
	start := make(chan struct{})
	for p := 0; p < procs; p++ {
		wg.Add(1)
		go func(p int) {
			defer wg.Done()
			var local []concEvent
			<-start
			for _, o := range plans[p] {
				var opj map[string]any
				switch o.k {
				case "merge":
					opj = map[string]any{"k": "merge", "from": o.from}
				case "query":
					opj = map[string]any{"k": "query", "pat": o.a}
				case "list", "count":
					opj = map[string]any{"k": o.k}
				default:
					opj = map[string]any{"k": o.k, "a": o.a}
				}
				c := atomic.AddInt64(&clock, 1)
				local = append(local, concEvent{c, map[string]any{"ev": "call", "p": names[p], "op": opj}})
				var r any
				switch o.k {
				case "add":
					r = store.Add(mgjson.ASTAtom(o.a))
				case "rm":
					r = store.Remove(mgjson.ASTAtom(o.a))
				case "has":
					r = store.Contains(mgjson.ASTAtom(o.a))
				case "query":
					got := []mgjson.Atom{}
					store.GetFacts(mgjson.ASTAtom(o.a), func(a ast.Atom) error { got = append(got, mgjson.FromAtom(a)); return nil })
					r = got
				case "list":
					got := [][]any{}
					for _, sym := range store.ListPredicates() {
						got = append(got, []any{sym.Symbol, sym.Arity})
					}
					r = got
				case "count":
					r = store.EstimateFactCount()
				case "merge":
					src := factstore.NewSimpleInMemoryStore()
					for _, a := range o.from {
						src.Add(mgjson.ASTAtom(a))
					}
					store.Merge(src)
					r = true
				}
				c = atomic.AddInt64(&clock, 1)
				local = append(local, concEvent{c, map[string]any{"ev": "ret", "p": names[p], "r": r}})
			}
			mu.Lock()
			events = append(events, local...)
			mu.Unlock()
		}(p)
	}
	close(start)
	wg.Wait()
	sort.Slice(events, func(i, j int) bool { return events[i].seq < events[j].seq })
	out := []any{map[string]any{"ev": "reset", "id": id, "procs": names, "base": kind}}
	for _, e := range events {
		out = append(out, e.ev)
	}
	return out
}

// cmdConcRecord: vh conc-record --seed S --n N --procs P --ops K --out trace.ndjson
func cmdConcRecord(args []string) error {
	f := parseFlags(args)
	rnd := rand.New(rand.NewSource(int64(f.int("seed", 1))))
	out, err := newLineWriter(f.str("out", "-"))
	if err != nil {
		return err
	}
	defer out.close()
	for i := 0; i < f.int("n", 50); i++ {
		for _, e := range recordConcHistory(fmt.Sprintf("c%d", i), rnd, f.int("procs", 4), f.int("ops", 6)) {
			out.write(e)
		}
	}
	return nil
}

func init() { commands["conc-record"] = cmdConcRecord }
