package main

import (
	"errors"
	"fmt"
	"math/rand"
	"strings"
	"time"

	"codeberg.org/TauCeti/mangle-go/ast"
	"codeberg.org/TauCeti/mangle-go/factstore"
	"verif/harness/mgjson"
)

// Temporal store histories (C13).  Timeline index i is the instant tBase + i nanoseconds, so that
// "adjacent at nanosecond granularity" is index difference 1; NEG/POS stand for unbounded ends.
const (
	tNEG  = -1000000
	tPOS  = 1000000
	tBase = int64(1700000000000000000)
)

type TOp struct {
	Ev   string       `json:"ev"`
	A    *mgjson.Atom `json:"a,omitempty"`
	Pat  *mgjson.Atom `json:"pat,omitempty"`
	Iv   []int64      `json:"iv,omitempty"`
	T    *int64       `json:"t,omitempty"`
	Pred []any        `json:"pred,omitempty"`
}

type THistory struct {
	ID    any   `json:"id"`
	Ops   []TOp `json:"ops"`
	Limit int   `json:"limit,omitempty"`
}

func idxTime(i int64) time.Time { return time.Unix(0, tBase+i) }

func mkInterval(iv []int64) ast.Interval {
	var s, e ast.TemporalBound
	if iv[0] == tNEG {
		s = ast.NegativeInfinity()
	} else {
		s = ast.NewTimestampBound(idxTime(iv[0]))
	}
	if iv[1] == tPOS {
		e = ast.PositiveInfinity()
	} else {
		e = ast.NewTimestampBound(idxTime(iv[1]))
	}
	return ast.NewInterval(s, e)
}

func fromInterval(iv ast.Interval) []any {
	lo, hi := any(int64(tNEG)), any(int64(tPOS))
	switch iv.Start.Type {
	case ast.TimestampBound:
		lo = iv.Start.Timestamp - tBase
	case ast.NegativeInfinityBound:
	default:
		lo = fmt.Sprintf("bound-type-%d", iv.Start.Type)
	}
	switch iv.End.Type {
	case ast.TimestampBound:
		hi = iv.End.Timestamp - tBase
	case ast.PositiveInfinityBound:
	default:
		hi = fmt.Sprintf("bound-type-%d", iv.End.Type)
	}
	return []any{lo, hi}
}

func tfacts(collect func(fn func(factstore.TemporalFact) error) error) ([]any, string) {
	out := []any{}
	err := collect(func(tf factstore.TemporalFact) error {
		out = append(out, []any{mgjson.FromAtom(tf.Atom), fromInterval(tf.Interval)})
		return nil
	})
	if err != nil {
		return out, err.Error()
	}
	return out, ""
}

// probe events issued after every mutation when probing is on
func probeOps(pats []mgjson.Atom, atoms []mgjson.Atom) []TOp {
	var ops []TOp
	for i := range pats {
		p := pats[i]
		for t := int64(-1); t <= 5; t++ {
			tt := t
			ops = append(ops, TOp{Ev: "at", Pat: &p, T: &tt})
		}
		for _, r := range [][]int64{{-1, 0}, {0, 0}, {1, 2}, {2, 4}, {4, 5}, {5, 5}, {tNEG, 0}, {3, tPOS}, {tNEG, tPOS}} {
			ops = append(ops, TOp{Ev: "during", Pat: &p, Iv: r})
		}
		ops = append(ops, TOp{Ev: "all", Pat: &p})
	}
	for i := range atoms {
		a := atoms[i]
		for t := int64(-1); t <= 5; t++ {
			tt := t
			ops = append(ops, TOp{Ev: "has", A: &a, T: &tt})
		}
	}
	ops = append(ops, TOp{Ev: "count"})
	return ops
}

func replayTHistory(h THistory, probe bool) (events []any) {
	events = append(events, map[string]any{"ev": "reset", "id": h.ID, "limit": h.Limit, "base": "t"})
	defer func() {
		if r := recover(); r != nil {
			events = append(events, map[string]any{"ev": "panic", "err": fmt.Sprint(r)})
		}
	}()
	var store *factstore.TemporalStore
	if h.Limit > 0 {
		store = factstore.NewTemporalStore(factstore.WithMaxIntervalsPerAtom(h.Limit))
	} else {
		store = factstore.NewTemporalStore()
	}
	// probing vocabulary: patterns and atoms mentioned by the history
	var pats, atoms []mgjson.Atom
	seenP, seenA := map[string]bool{}, map[string]bool{}
	for _, op := range h.Ops {
		if op.A != nil && !seenA[mgjson.Key(*op.A)] {
			seenA[mgjson.Key(*op.A)] = true
			atoms = append(atoms, *op.A)
			pat := mgjson.Atom{P: op.A.P, A: make([]any, len(op.A.A))}
			for j := range pat.A {
				pat.A[j] = []any{"v", fmt.Sprintf("X%d", j)}
			}
			if !seenP[mgjson.Key(pat)] {
				seenP[mgjson.Key(pat)] = true
				pats = append(pats, pat)
			}
			if len(op.A.A) > 0 && !seenP[mgjson.Key(*op.A)] {
				seenP[mgjson.Key(*op.A)] = true
				pats = append(pats, *op.A)
			}
		}
	}
	var run func(op TOp)
	run = func(op TOp) {
		switch op.Ev {
		case "add":
			ok, err := store.Add(mgjson.ASTAtom(*op.A), mkInterval(op.Iv))
			kind := ""
			if err != nil {
				switch {
				case errors.Is(err, factstore.ErrIntervalLimitExceeded):
					kind = "limit"
				case strings.Contains(err.Error(), "invalid"):
					kind = "invalid"
				default:
					kind = "other:" + err.Error()
				}
			}
			events = append(events, map[string]any{"ev": "add", "a": op.A, "iv": op.Iv, "r": ok, "err": kind})
			if probe {
				for _, p := range probeOps(pats, atoms) {
					run(p)
				}
			}
		case "at":
			r, e := tfacts(func(fn func(factstore.TemporalFact) error) error {
				return store.GetFactsAt(mgjson.ASTAtom(*op.Pat), idxTime(*op.T), fn)
			})
			events = append(events, map[string]any{"ev": "at", "pat": op.Pat, "t": *op.T, "r": r, "err": e})
		case "during":
			if op.Iv[0] > op.Iv[1] {
				return
			}
			r, e := tfacts(func(fn func(factstore.TemporalFact) error) error {
				return store.GetFactsDuring(mgjson.ASTAtom(*op.Pat), mkInterval(op.Iv), fn)
			})
			events = append(events, map[string]any{"ev": "during", "pat": op.Pat, "iv": op.Iv, "r": r, "err": e})
		case "all":
			r, e := tfacts(func(fn func(factstore.TemporalFact) error) error {
				return store.GetAllFacts(mgjson.ASTAtom(*op.Pat), fn)
			})
			events = append(events, map[string]any{"ev": "all", "pat": op.Pat, "r": r, "err": e})
		case "has":
			events = append(events, map[string]any{"ev": "has", "a": op.A, "t": *op.T, "r": store.ContainsAt(mgjson.ASTAtom(*op.A), idxTime(*op.T))})
		case "count":
			events = append(events, map[string]any{"ev": "count", "r": store.EstimateFactCount()})
		case "coalesce":
			sym := ast.PredicateSym{Symbol: op.Pred[0].(string), Arity: int(mgjson.Int(op.Pred[1]))}
			if err := store.Coalesce(sym); err != nil {
				events = append(events, map[string]any{"ev": "coalesce_err", "err": err.Error()})
				return
			}
			after, _ := tfacts(func(fn func(factstore.TemporalFact) error) error {
				return store.GetAllFacts(ast.NewQuery(sym), fn)
			})
			events = append(events, map[string]any{"ev": "coalesce", "pred": op.Pred, "after": after})
			if probe {
				for _, p := range probeOps(pats, atoms) {
					run(p)
				}
			}
		}
	}
	for _, op := range h.Ops {
		run(op)
	}
	return events
}

// cmdTStore: vh tstore --in histories.ndjson --out trace.ndjson [--probe] [--limit N]
func cmdTStore(args []string) error {
	f := parseFlags(args)
	probe := f.bool("probe")
	limit := f.int("limit", 0)
	return parallelMapMulti(f.str("in", "-"), f.str("out", "-"), f.int("workers", 0), func(line []byte) ([]any, error) {
		var h THistory
		if err := jsonDecode(line, &h); err != nil {
			return nil, err
		}
		if h.Limit == 0 {
			h.Limit = limit
		}
		return replayTHistory(h, probe), nil
	})
}

// cmdTStoreRandom: random long histories at scattered instants (direction B)
func cmdTStoreRandom(args []string) error {
	f := parseFlags(args)
	rnd := rand.New(rand.NewSource(int64(f.int("seed", 1))))
	out, err := newLineWriter(f.str("out", "-"))
	if err != nil {
		return err
	}
	defer out.close()
	atoms := []mgjson.Atom{{P: "ta", A: []any{[]any{"n", 1}}}, {P: "ta", A: []any{[]any{"c", "/x"}}}, {P: "tb", A: []any{[]any{"n", 1}, []any{"s", "k"}}}, {P: "tz", A: []any{}}}
	for i := 0; i < f.int("n", 50); i++ {
		span := int64([]int{6, 12, 40}[rnd.Intn(3)])
		iv := func() []int64 {
			a, b := rnd.Int63n(span), rnd.Int63n(span)
			if a > b && rnd.Intn(8) != 0 {
				a, b = b, a
			}
			switch rnd.Intn(12) {
			case 0:
				return []int64{tNEG, b}
			case 1:
				return []int64{a, tPOS}
			case 2:
				return []int64{tNEG, tPOS}
			}
			return []int64{a, b}
		}
		var ops []TOp
		for k := 0; k < f.int("len", 60); k++ {
			a := atoms[rnd.Intn(len(atoms))]
			pat := mgjson.Atom{P: a.P, A: make([]any, len(a.A))}
			for j := range pat.A {
				if rnd.Intn(3) == 0 {
					pat.A[j] = a.A[j]
				} else {
					pat.A[j] = []any{"v", fmt.Sprintf("X%d", j)}
				}
			}
			t := rnd.Int63n(span+2) - 1
			switch r := rnd.Intn(12); {
			case r < 5:
				ops = append(ops, TOp{Ev: "add", A: &a, Iv: iv()})
			case r < 7:
				ops = append(ops, TOp{Ev: "at", Pat: &pat, T: &t})
			case r < 8:
				ops = append(ops, TOp{Ev: "during", Pat: &pat, Iv: iv()})
			case r < 9:
				ops = append(ops, TOp{Ev: "all", Pat: &pat})
			case r < 10:
				ops = append(ops, TOp{Ev: "has", A: &a, T: &t})
			case r < 11:
				ops = append(ops, TOp{Ev: "count"})
			default:
				ops = append(ops, TOp{Ev: "coalesce", Pred: []any{a.P, len(a.A)}})
			}
		}
		out.write(THistory{ID: fmt.Sprintf("trnd-%d", i), Ops: ops, Limit: []int{0, 0, 3, 6}[rnd.Intn(4)]})
	}
	return nil
}

func init() {
	commands["tstore"] = cmdTStore
	commands["tstore-random"] = cmdTStoreRandom
}
