package main

import (
	"encoding/hex"
	"fmt"

	"codeberg.org/TauCeti/mangle-go/ast"
	"codeberg.org/TauCeti/mangle-go/functional"
	"codeberg.org/TauCeti/mangle-go/parse"
)

// Strings (C09, spec/Escape.tla): symbolic character-class sequences are made concrete with two
// representatives per class, printed as string / byte-string literals, parsed back and compared byte by byte.
var classReps = map[string][2]string{
	"plain": {"a", "Z"}, "space": {" ", " "}, "dq": {"\"", "\""}, "sq": {"'", "'"}, "bt": {"`", "`"}, "bs": {"\\", "\\"},
	"lf": {"\n", "\n"}, "cr": {"\r", "\r"}, "tab": {"\t", "\t"}, "nul": {"\x00", "\x01"}, "del": {"\x7f", "\x1b"},
	"pct": {"%", "%"}, "slash": {"/", "/"}, "n": {"n", "r"}, "t": {"t", "b"}, "x": {"x", "X"}, "u": {"u", "U"},
	"hex": {"0", "f"}, "lb": {"{", "["}, "rb": {"}", "]"}, "u2": {"é", "ß"}, "u3": {"€", "中"}, "repl": {"\uFFFD", "\uFFFD"}, "u4": {"😀", "𝔘"}, "bad": {"\xff", "\xc3"},
}

type StrCase struct {
	ID      any      `json:"id"`
	Classes []string `json:"classes"`
	Bytes   bool     `json:"bytes"`
}

func runStr(c StrCase, variant int) (ev map[string]any) {
	s := ""
	for i, cl := range c.Classes {
		s += classReps[cl][(i+variant)%2]
	}
	ev = map[string]any{"ev": "roundtrip", "id": fmt.Sprintf("%v/%d", c.ID, variant), "vid": 0, "classes": c.Classes, "bytes": c.Bytes,
		"original": hex.EncodeToString([]byte(s)), "reparsed": "", "equals": false, "err": "", "printed": ""}
	defer func() {
		if r := recover(); r != nil {
			ev["err"] = fmt.Sprint("panic: ", r)
		}
	}()
	var k ast.Constant
	if c.Bytes {
		k = ast.Bytes([]byte(s))
	} else {
		k = ast.String(s)
	}
	printed := k.String()
	ev["printed"] = printed
	term, err := parse.BaseTerm(printed)
	if err != nil {
		ev["err"] = err.Error()
		return
	}
	v, err := functional.EvalExpr(term, nil)
	if err != nil {
		ev["err"] = "eval: " + err.Error()
		return
	}
	pc, ok := v.(ast.Constant)
	if !ok || pc.Type != k.Type {
		ev["err"] = fmt.Sprintf("parsed back as %v", v)
		return
	}
	ev["reparsed"] = hex.EncodeToString([]byte(pc.Symbol))
	ev["equals"] = pc.Equals(k)
	// an atom and a clause around the literal must round-trip as well
	atom := ast.NewAtom("p", k, ast.Number(1))
	if back, err := parse.Atom(atom.String()); err != nil || !back.Equals(atom) {
		ev["err"] = fmt.Sprintf("atom %s does not round-trip: %v", atom.String(), err)
	}
	return
}

// cmdStrings: vh strings --in classes.ndjson --out trace.ndjson
func cmdStrings(args []string) error {
	f := parseFlags(args)
	first := true
	return parallelMapMulti(f.str("in", "-"), f.str("out", "-"), 1, func(line []byte) ([]any, error) {
		var c StrCase
		if err := jsonDecode(line, &c); err != nil {
			return nil, err
		}
		var out []any
		if first {
			out = append(out, map[string]any{"ev": "header", "nobj": 0, "values": []any{}})
			first = false
		}
		out = append(out, runStr(c, 0))
		if len(c.Classes) > 0 {
			out = append(out, runStr(c, 1))
		}
		return out, nil
	})
}

func init() { commands["strings"] = cmdStrings }
