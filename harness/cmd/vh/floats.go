package main

import (
	"encoding/json"
	"fmt"
	"math"
	"math/rand"
	"strconv"
	"strings"

	"codeberg.org/TauCeti/mangle-go/ast"
	"codeberg.org/TauCeti/mangle-go/functional"
	"codeberg.org/TauCeti/mangle-go/parse"
)

// Floats (C09, spec/FloatText.tla): a float constant is printed alone, inside a list and inside an
// atom, and each text is parsed back. The characters of the printed constant travel to TLC one by
// one, together with the decimal value [neg, ds, e] = (-1)^neg * 0.d1..dk * 10^e of the float.

type floatCase struct {
	ID  any   `json:"id"`
	Neg bool  `json:"neg"`
	Ds  []int `json:"ds"`
	E   int   `json:"e"`
}

type floatRT struct {
	Ctx    string `json:"ctx"`
	Text   string `json:"text"`
	Err    string `json:"err"`
	Equals bool   `json:"equals"`
}

// decimalOf gives the shortest-digits decimal form of f in the normal form of the specification.
func decimalOf(f float64) (neg bool, ds []int, e int) {
	neg = math.Signbit(f)
	ds = []int{}
	if f == 0 {
		return
	}
	s := strconv.FormatFloat(math.Abs(f), 'e', -1, 64) // d.ddde±xx
	mant, exp, _ := strings.Cut(s, "e")
	x, _ := strconv.Atoi(exp)
	for _, c := range strings.ReplaceAll(mant, ".", "") {
		ds = append(ds, int(c-'0'))
	}
	for len(ds) > 0 && ds[len(ds)-1] == 0 {
		ds = ds[:len(ds)-1]
	}
	return neg, ds, x + 1
}

func floatEvent(id any, f float64, neg bool, ds []int, e int) map[string]any {
	c := ast.Float64(f)
	printed := c.String()
	chars := make([]string, 0, len(printed))
	for _, r := range printed {
		chars = append(chars, string(r))
	}
	var rts []floatRT
	try := func(ctx, text string, back func() (ast.Constant, error)) {
		rt := floatRT{Ctx: ctx, Text: text}
		func() {
			defer func() {
				if r := recover(); r != nil {
					rt.Err = fmt.Sprint("panic: ", r)
				}
			}()
			got, err := back()
			if err != nil {
				rt.Err = err.Error()
				return
			}
			rt.Equals = got.Equals(c)
		}()
		rts = append(rts, rt)
	}
	evalConst := func(t ast.BaseTerm) (ast.Constant, error) {
		ev, err := functional.EvalExpr(t, nil)
		if err != nil {
			return ast.Constant{}, err
		}
		k, ok := ev.(ast.Constant)
		if !ok {
			return ast.Constant{}, fmt.Errorf("not a constant: %v", ev)
		}
		return k, nil
	}
	try("term", printed, func() (ast.Constant, error) {
		t, err := parse.BaseTerm(printed)
		if err != nil {
			return ast.Constant{}, err
		}
		return evalConst(t)
	})
	listText := ast.List([]ast.Constant{c}).String()
	try("list", listText, func() (ast.Constant, error) {
		t, err := parse.BaseTerm(listText)
		if err != nil {
			return ast.Constant{}, err
		}
		l, err := evalConst(t)
		if err != nil {
			return ast.Constant{}, err
		}
		var first *ast.Constant
		l.ListValues(func(e ast.Constant) error {
			if first == nil {
				first = &e
			}
			return nil
		}, func() error { return nil })
		if first == nil {
			return ast.Constant{}, fmt.Errorf("empty list")
		}
		return *first, nil
	})
	atomText := ast.NewAtom("p", c).String()
	try("atom", atomText, func() (ast.Constant, error) {
		t, err := parse.Term(atomText)
		if err != nil {
			return ast.Constant{}, err
		}
		a, ok := t.(ast.Atom)
		if !ok || len(a.Args) != 1 {
			return ast.Constant{}, fmt.Errorf("not a unary atom: %v", t)
		}
		return evalConst(a.Args[0])
	})
	return map[string]any{"id": id, "neg": neg, "ds": ds, "e": e, "printed": printed, "chars": chars, "rt": rts}
}

// cmdFloats: vh floats --in cases.ndjson --out trace.ndjson [--random N --seed S]
func cmdFloats(args []string) error {
	f := parseFlags(args)
	out, err := newLineWriter(f.str("out", "-"))
	if err != nil {
		return err
	}
	defer out.close()
	n := 0
	if in := f.str("in", ""); in != "" {
		err = readLines(in, func(line []byte) error {
			var c floatCase
			if err := json.Unmarshal(line, &c); err != nil {
				return err
			}
			var sb strings.Builder
			if c.Neg {
				sb.WriteString("-")
			}
			sb.WriteString("0.")
			if len(c.Ds) == 0 {
				sb.WriteString("0")
			}
			for _, d := range c.Ds {
				sb.WriteByte(byte('0' + d))
			}
			fmt.Fprintf(&sb, "e%d", c.E)
			v, perr := strconv.ParseFloat(sb.String(), 64)
			if perr != nil {
				return fmt.Errorf("case %v: %v", c.ID, perr)
			}
			if c.Ds == nil {
				c.Ds = []int{}
			}
			out.write(floatEvent(c.ID, v, c.Neg, c.Ds, c.E))
			n++
			return nil
		})
		if err != nil {
			return err
		}
	}
	// boundary values and random bit patterns: the decimal value is the shortest-digits form
	special := []float64{math.MaxFloat64, -math.MaxFloat64, math.SmallestNonzeroFloat64, -math.SmallestNonzeroFloat64,
		2.2250738585072014e-308, 2.225073858507201e-308, 1 << 53, 1<<53 + 2, 0.1, 0.3, 1.0 / 3, 1e23, 9007199254740993, 4.35, 5e-324 * 3, 123456789.125}
	for i, v := range special {
		neg, ds, e := decimalOf(v)
		out.write(floatEvent(fmt.Sprintf("special-%d", i), v, neg, ds, e))
		n++
	}
	rnd := rand.New(rand.NewSource(int64(f.int("seed", 1))))
	for i := 0; i < f.int("random", 0); i++ {
		v := math.Float64frombits(rnd.Uint64())
		if math.IsNaN(v) || math.IsInf(v, 0) {
			continue
		}
		if i%3 == 0 { // a third with few significant bits: short decimal forms across the whole exponent range
			v = math.Float64frombits(math.Float64bits(v) &^ (1<<uint(20+rnd.Intn(32)) - 1))
		}
		neg, ds, e := decimalOf(v)
		out.write(floatEvent(fmt.Sprintf("rnd-%d", i), v, neg, ds, e))
		n++
	}
	fmt.Printf("floats: %d values\n", n)
	return nil
}

func init() { commands["floats"] = cmdFloats }
