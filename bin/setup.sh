#!/bin/sh
# Offline setup: warm the Go build cache for the harness (every check rebuilds it against /repo anyway)
# and parse the specifications once.
set -e
cd /verif/harness
export GOFLAGS=-mod=mod GOPROXY=off
mkdir -p /verif/work
go build -tags verif -o /verif/work/vh-setup ./cmd/vh
rm -f /verif/work/vh-setup
echo "setup ok"
