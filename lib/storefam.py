"""C06: every fact store behaves as a set of ground atoms (histories replayed into all stores,
replies validated by TLC against FactStore.tla)."""
import json
import os
import random

from vlib import InfraError, write_ndjson, read_ndjson, load_known_findings
import evalfam

HASH_KEYED_KINDS = ("simple", "indexed", "multi", "tadapter")


def history_of(lines, lineno):
    """Events of the history containing 1-based line `lineno`, up to and including it."""
    j = lineno - 1
    while j > 0 and not lines[j].startswith('{"base":'):
        j -= 1
    return [json.loads(x) for x in lines[j:lineno]]


def atoms_of(events):
    out = []
    for e in events:
        if "a" in e:
            out.append(e["a"])
        for a in e.get("from", []) or []:
            out.append(a)
        if e.get("ev") == "query":
            out += e.get("r", [])
    return out


def canon_value(x):
    """Structural identity of an atom / value in the JSON encoding: entries of maps and structs in one order."""
    if isinstance(x, dict):
        return json.dumps({k: canon_value(v) for k, v in sorted(x.items())})
    if isinstance(x, list):
        if len(x) == 2 and x[0] in ("map", "struct") and isinstance(x[1], list):
            return json.dumps([x[0], sorted(canon_value(e) for e in x[1])])
        return json.dumps([canon_value(e) for e in x])
    return json.dumps(x)


def attribute(ctx, hist, open_ids):
    """Known-finding attribution for a rejected store event (last event of hist)."""
    reset, bad = hist[0], hist[-1]
    kind = reset["kind"]
    subject = bad.get("a")
    if "F8" in open_ids and kind in HASH_KEYED_KINDS:
        atoms = atoms_of(hist)
        uniq = {json.dumps(a, sort_keys=True): a for a in atoms}
        cand = [subject] if subject else [a for a in uniq.values()]
        # Atom.Hash() of every atom involved, asked of the library once per atom and run (thousands of rejected events
        # share a few hundred atoms)
        if not hasattr(ctx, "_hash_cache"):
            ctx._hash_cache = {}
        cache = ctx._hash_cache
        need = {k: a for k, a in list(uniq.items()) + [(json.dumps(a, sort_keys=True), a) for a in cand] if k not in cache}
        if need:
            p = ctx.run_vh(["hashcheck"], input_text=json.dumps(dict(present=[], missing=list(need.values()))))
            for k, h in zip(need.keys(), json.loads(p.stdout)["hashes"]):
                cache[k] = h
        cols = []
        for a in cand:
            ka = json.dumps(a, sort_keys=True)
            for kb, b in uniq.items():
                if canon_value(b) != canon_value(a) and cache[kb] == cache[ka]:
                    cols.append((a, b))
                    break
        if cols:
            return "F8 hash-keyed store (%s) conflates distinct atoms with equal Atom.Hash(), e.g. %s with %s" % (
                kind, evalfam.fact_str(cols[0][0]), evalfam.fact_str(cols[0][1]))
    if "F27" in open_ids and kind == "teeing":
        base = {json.dumps(a, sort_keys=True) for a in reset.get("base", [])}
        merged = set()
        for e in hist[1:-1]:
            if e["ev"] == "merge":
                merged |= {json.dumps(a, sort_keys=True) for a in e["from"]}
        overlap = base & merged
        if overlap:
            concerned = [subject] if subject else bad.get("r", []) if bad["ev"] == "query" else []
            if bad["ev"] == "count" or any(json.dumps(a, sort_keys=True) in overlap for a in concerned):
                return "F27 TeeingStore.Merge copies atoms the base already holds into the output store (then reported twice / removable while visible), e.g. merge of %s over base" % evalfam.fact_str(json.loads(sorted(overlap)[0]))
    return None


def replay_history(ctx, hist_ops, kind):
    cp = os.path.join(ctx.work, "confirm_%d.ndjson" % len(os.listdir(ctx.work)))
    write_ndjson(cp, [dict(id="confirm", ops=hist_ops)])
    tp = cp.replace(".ndjson", ".trace.ndjson")
    ctx.run_vh(["store", "--in", cp, "--out", tp, "--kinds", kind])
    ms = ctx.validate_events(tp, "Trace_FactStore", shards=1)
    return ms, ctx.last_trace_lines


def ops_of(hist):
    ops = []
    for e in hist[1:]:
        op = {k: e[k] for k in ("ev", "a", "pat", "from") if k in e}
        ops.append(op)
    return ops


def judge(ctx, trace_path, tag):
    ms = ctx.validate_events(trace_path, "Trace_FactStore")
    lines = ctx.last_trace_lines
    ctx.evaluations += sum(1 for l in lines if not l.startswith('{"base":'))
    open_ids = {k["id"] for k in load_known_findings() if k.get("status") == "open"}
    confirmed = 0
    seen = set()
    for m in ms:
        hist = history_of(lines, m["line"])
        kf = attribute(ctx, hist, open_ids)
        if kf:
            ctx.known_finding(kf)
            continue
        kind = hist[0]["kind"]
        key = (kind, len(hist[0].get("base", [])), json.dumps(ops_of(hist), sort_keys=True))
        if key in seen or confirmed >= 8:
            continue
        seen.add(key)
        confirmed += 1
        ms2, lines2 = replay_history(ctx, ops_of(hist), kind)
        ms2 = [x for x in ms2 if len(history_of(lines2, x["line"])[0].get("base", [])) == len(hist[0].get("base", []))]
        if not ms2:
            ctx.notes.setdefault("unreproduced", []).append(dict(kind=kind, history=ops_of(hist)))
            continue
        h2 = history_of(lines2, ms2[0]["line"])
        ctx.violation("store %s (base %s): after %s the reply to %s was %s, the set specification says %s" % (
            kind, [evalfam.fact_str(a) for a in hist[0].get("base", [])], [short(e) for e in h2[1:-1]], short(h2[-1], reply=False),
            json.dumps(h2[-1].get("r")), ms2[0]["expected"]),
            dict(property="C06", replay_family="store", kind=kind, base=hist[0].get("base", []), ops=ops_of(hist), observed=h2[-1], expected=ms2[0]["expected"]))
    if ctx.notes.get("unreproduced") and not ctx.violations:
        raise InfraError("store mismatch did not reproduce: %s" % ctx.notes["unreproduced"][:2])
    ctx.notes.setdefault("sources", {})[tag] = dict(events=len(lines), histories=sum(1 for l in lines if l.startswith('{"base":')), rejected_events=len(ms))


def short(e, reply=True):
    s = e["ev"]
    if "a" in e:
        s += " " + evalfam.fact_str(e["a"])
    if "pat" in e:
        s += " " + evalfam.fact_str(e["pat"])
    if "from" in e:
        s += " " + str([evalfam.fact_str(a) for a in e["from"]])
    if reply and "r" in e and e["ev"] not in ("query", "preds"):
        s += " -> " + json.dumps(e["r"])
    return s


def check_c06(ctx):
    rnd = random.Random(ctx.seed)
    quick = ctx.tier == "quick"
    ctx.build_vh()
    # T06 on the specification: bucket stores refine the set (list buckets), the single-atom bucket mutant does not
    evalfam.model_check(ctx, "MC_StoreImpl", "MC_StoreImpl.cfg", workers=4)
    if not quick:
        evalfam.model_check(ctx, "MC_StoreImpl", "MC_StoreImpl_mutSingle.cfg", workers=4, expect_violation="T06")
    # direction A: every history of <= 3 operations over the 8-atom universe (incl. a hash-equal pair, zero arity,
    # same symbol / other arity, structured values), replayed into 8 store kinds (wrappers over 3 base layers)
    allp = os.path.join(ctx.work, "hist_all.ndjson")
    gen = ctx.gen_cases("MC_StoreHist", "MC_StoreHist.cfg", allp, workers=8, idprefix="h3-")
    runp = os.path.join(ctx.work, "hist.ndjson")
    n = evalfam.sample_file(allp, runp, 8000 if quick else None, rnd)
    ctx.notes["generators"] = dict(h3=dict(histories=gen["cases"], executed=n, exhaustive=not quick))
    tp = os.path.join(ctx.work, "hist.trace.ndjson")
    ctx.run_vh(["store", "--in", runp, "--out", tp])
    judge(ctx, tp, "h3")
    # simulated histories of 14 operations
    simp = os.path.join(ctx.work, "histsim.ndjson")
    gen = ctx.gen_cases("MC_StoreHist", "MC_StoreHist_sim.cfg", simp, simulate=dict(num=1500 if quick else 20000, depth=15), idprefix="h14-")
    ctx.notes["generators"]["h14"] = dict(histories=gen["cases"])
    tp = os.path.join(ctx.work, "histsim.trace.ndjson")
    ctx.run_vh(["store", "--in", simp, "--out", tp])
    judge(ctx, tp, "h14")
    # direction B: random histories over random atoms of every constant kind, recorded and validated
    rp = os.path.join(ctx.work, "histrnd.ndjson")
    ctx.run_vh(["store-random", "--seed", str(ctx.seed), "--n", str(400 if quick else 5000), "--len", "40", "--out", rp])
    tp = os.path.join(ctx.work, "histrnd.trace.ndjson")
    ctx.run_vh(["store", "--in", rp, "--out", tp])
    judge(ctx, tp, "rnd40")
    lines = ctx.last_trace_lines
    ctx.add_sample([json.loads(x) for x in lines[:6]])
    hs = read_ndjson(runp)[:2]
    ctx.add_sample(hs)
    for l in open(tp):
        if not l.startswith('{"base":'):
            ctx.nontrivial.add(l[:200])
            if len(ctx.nontrivial) > 200000:
                break
    ctx.exhaustive = not quick
    ctx.assumptions += ["documented layering is part of the model: MergedStore/TeeingStore remove and report removal on the writable layer only; wrappers' counts may over-estimate; the temporal adapter has no Remove",
                        "ListPredicates must cover the predicates of visible facts (it may list more)"]
    return ctx.finish("model_checking",
                      "operation histories (add, remove, contains, pattern query, merge, list predicates, count) enumerated by TLC (all of length <= 3; simulated length 14) and drawn at random (length 40, atoms of every constant kind), "
                      "replayed into simple/indexed/multi-indexed/array/concurrent/merged/teeing/temporal-adapter stores; every reply validated by TLC against the set specification; non-trivial/distinct = distinct recorded events of the random histories")


def replay(ctx, obj):
    ctx.build_vh()
    ms, lines = replay_history(ctx, obj["ops"], obj["kind"])
    ms = [x for x in ms if len(history_of(lines, x["line"])[0].get("base", [])) == len(obj.get("base", []))]
    if ms:
        ctx.violation("store mismatch reproduced", obj)
    ctx.evaluations += len(lines)
    ctx.nontrivial.update(["replay", "replay2"])
    ctx.add_sample(obj["ops"])
    return ctx.finish("model_checking", "replay of one stored history")
