"""C16: interactive definitions and pop compose like a stack."""
import json
import os
import random
import re

from vlib import InfraError, write_ndjson, read_ndjson, unescape_tla_string
import evalfam
from storefam import history_of


def extract_lib(ctx, tlc_out, path):
    with open(tlc_out, errors="replace") as f:
        for line in f:
            if line.startswith('<<"LIB", "'):
                lib = json.loads(unescape_tla_string(line.rstrip("\n")[len('<<"LIB", "'):-3]))
                with open(path, "w") as o:
                    json.dump(lib, o)
                return lib
    raise InfraError("generator did not print the library")


def cmds_of(hist):
    out = []
    for e in hist[1:]:
        if e["ev"] in ("define", "load", "pop"):
            out.append({k: e[k] for k in ("ev", "text", "files") if k in e})
    return out


def short(c):
    return c["ev"] + (" " + c["text"] if "text" in c else "") + (" " + ",".join(c["files"]) if "files" in c else "")


def judge(ctx, libp, trace_path, tag):
    ms = ctx.validate_events(trace_path, "Trace_Interpreter")
    lines = ctx.last_trace_lines
    ncmd = 0
    for l in lines:
        if '"ev":"obs"' not in l[:40] and not l.startswith('{"base":'):
            ncmd += 1
    ctx.evaluations += ncmd
    # spec drift (the specification's own acceptance rules differ from the implementation's): a warning only
    drift = 0
    for fn in os.listdir(ctx.work):
        if fn.startswith("val_" + os.path.basename(trace_path)):
            with open(os.path.join(ctx.work, fn), errors="replace") as f:
                drift += sum(1 for x in f if x.startswith('<<"DRIFT"'))
    seen = set()
    for m in ms:
        hist = history_of(lines, m["line"])
        cmds = cmds_of(hist)
        key = json.dumps(cmds)
        if key in seen or len(seen) > 6:
            continue
        seen.add(key)
        cp = os.path.join(ctx.work, "confirm_%d.ndjson" % len(os.listdir(ctx.work)))
        write_ndjson(cp, [dict(id="confirm", cmds=cmds)])
        tp = cp.replace(".ndjson", ".trace.ndjson")
        ctx.run_vh(["interp", "--lib", libp, "--in", cp, "--out", tp])
        ms2 = ctx.validate_events(tp, "Trace_Interpreter", shards=1)
        if not ms2:
            ctx.notes.setdefault("unreproduced", []).append(cmds)
            continue
        h2 = history_of(ctx.last_trace_lines, ms2[0]["line"])
        bad = h2[-1]
        if bad["ev"] == "obs":
            desc = "shows %s but a fresh interpreter holding the live definitions shows %s" % (
                [(o["pred"], [evalfam.fact_str(a) for a in o["facts"]]) for o in bad["q"] if o["known"]],
                [(o["pred"], [evalfam.fact_str(a) for a in o["facts"]]) for o in bad["fresh_q"] if o["known"]])
        else:
            desc = "answered ok=%s to '%s' but a fresh interpreter holding the live definitions answers ok=%s" % (bad.get("ok"), short(bad), bad.get("fresh_ok"))
        ctx.violation("interpreter after [%s] %s" % ("; ".join(short(c) for c in cmds_of(h2)), desc),
                      dict(property="C16", replay_family="interp", cmds=cmds, lib=json.load(open(libp)), observed=bad, expected=ms2[0]["expected"][:2000]))
    if ctx.notes.get("unreproduced") and not ctx.violations:
        raise InfraError("interpreter mismatch did not reproduce: %s" % ctx.notes["unreproduced"][:1])
    ctx.notes.setdefault("sources", {})[tag] = dict(events=len(lines), histories=sum(1 for l in lines if l.startswith('{"base":')), rejected=len(ms), spec_drift_warnings=drift)
    return lines


def check_c16(ctx):
    rnd = random.Random(ctx.seed)
    quick = ctx.tier == "quick"
    ctx.build_vh()
    # T16 on the specification is checked while generating: replaying only the live definitions into a fresh
    # machine reproduces the state, after every history of <= 4 commands over 7 texts, 4 file sets and pop
    allp = os.path.join(ctx.work, "ih_all.ndjson")
    g = ctx.gen_cases("MC_InterpHist", "MC_InterpHist.cfg", allp, workers=8, idprefix="i4-")
    libp = os.path.join(ctx.work, "lib.json")
    extract_lib(ctx, g["out"], libp)
    runp = os.path.join(ctx.work, "ih.ndjson")
    n = evalfam.sample_file(allp, runp, 7000 if quick else None, rnd)
    ctx.notes["generators"] = dict(histories_len_le_4=g["cases"], executed=n, exhaustive=not quick)
    tp = os.path.join(ctx.work, "ih.trace.ndjson")
    ctx.run_vh(["interp", "--lib", libp, "--in", runp, "--out", tp])
    lines = judge(ctx, libp, tp, "len4")
    ctx.add_sample([json.loads(x) for x in lines[1:6]])
    # simulated histories of 24 commands
    simp = os.path.join(ctx.work, "ihsim.ndjson")
    g = ctx.gen_cases("MC_InterpHist", "MC_InterpHist_sim.cfg", simp, simulate=dict(num=400 if quick else 6000, depth=25), idprefix="i24-")
    ctx.notes["generators"]["simulated_len_24"] = g["cases"]
    tp = os.path.join(ctx.work, "ihsim.trace.ndjson")
    ctx.run_vh(["interp", "--lib", libp, "--in", simp, "--out", tp])
    lines = judge(ctx, libp, tp, "len24")
    for l in lines:
        if l.startswith('{"ev":"obs"') or '"ev":"obs"' in l[:60]:
            ctx.nontrivial.add(l[:600])
    ctx.exhaustive = not quick
    ctx.assumptions += ["after every command each library predicate is queried by name on the interpreter and on a fresh interpreter that replays only the live definitions (loads, then interactive texts, in order); "
                        "both must show the TLC model of the live clauses, and every command must be accepted exactly when the fresh interpreter accepts it",
                        "which definitions are live follows the documented stack discipline from the observed outcomes (load pops the interactive buffer; pop removes the interactive definitions first)",
                        "the specification's own acceptance rules (DefineOK/LoadOK) are only compared as a drift warning"]
    return ctx.finish("model_checking",
                      "command histories (define valid/invalid/redefining/dependent texts, load one or two files incl. reloads and dependency on earlier files, pop) enumerated by TLC up to length 4 and simulated to length 24, "
                      "replayed into the real interpreter; visible state and acceptance validated by TLC against Interpreter.tla and a fresh-replay interpreter; non-trivial/distinct = distinct observations")


def replay(ctx, obj):
    ctx.build_vh()
    libp = os.path.join(ctx.work, "lib.json")
    json.dump(obj["lib"], open(libp, "w"))
    cp = os.path.join(ctx.work, "replay.ndjson")
    write_ndjson(cp, [dict(id="replay", cmds=obj["cmds"])])
    tp = cp.replace(".ndjson", ".trace.ndjson")
    ctx.run_vh(["interp", "--lib", libp, "--in", cp, "--out", tp])
    if ctx.validate_events(tp, "Trace_Interpreter", shards=1):
        ctx.violation("interpreter mismatch reproduced", obj)
    ctx.evaluations += 1
    ctx.nontrivial.update(["r1", "r2"])
    ctx.add_sample(obj["cmds"])
    return ctx.finish("model_checking", "replay of one interpreter history")
