"""Registry of property checks."""
import json
import os

import evalfam
import stratfam
import storefam
import concfam
import scfam
import tempfam
import tevalfam
import interpfam
import provfam
import typefam
import boundsfam
import termfam
import crashfam
import builtinfam
from vlib import InfraError

CHECKS = {}


def register(pid):
    def deco(fn):
        CHECKS[pid] = fn
        return fn
    return deco


def replay(ctx, path):
    """Re-run the case stored in a replay file and judge it again."""
    obj = json.load(open(path))
    fam = obj.get("replay_family", "eval")
    if fam == "eval":
        return evalfam.replay(ctx, obj)
    if fam == "steps":
        return evalfam.replay_steps(ctx, obj)
    if fam == "builtins":
        return builtinfam.replay(ctx, obj)
    if fam == "crash":
        return crashfam.replay(ctx, obj)
    if fam == "terms":
        return termfam.replay(ctx, obj)
    if fam == "bounds":
        return boundsfam.replay(ctx, obj)
    if fam == "types":
        return typefam.replay(ctx, obj)
    if fam == "prov":
        return provfam.replay(ctx, obj)
    if fam == "interp":
        return interpfam.replay(ctx, obj)
    if fam == "teval":
        return tevalfam.replay(ctx, obj)
    if fam == "tstore":
        return tempfam.replay(ctx, obj)
    if fam == "sc":
        return scfam.replay(ctx, obj)
    if fam in ("lin", "race"):
        return concfam.replay(ctx, obj)
    if fam == "store":
        return storefam.replay(ctx, obj)
    if fam == "strat":
        return stratfam.replay(ctx, obj)
    raise InfraError("no replay handler for family %s" % fam)


@register("C01")
def c01(ctx):
    return evalfam.check_c01(ctx)


@register("C20")
def c20(ctx):
    return evalfam.check_c20(ctx)


@register("C02")
def c02(ctx):
    return evalfam.check_c02(ctx)


@register("C17")
def c17(ctx):
    return evalfam.check_c17(ctx)


@register("C04")
def c04(ctx):
    return evalfam.check_c04(ctx)


@register("C03")
def c03(ctx):
    return stratfam.check_c03(ctx)


@register("C05")
def c05(ctx):
    return evalfam.check_c05(ctx)


@register("C06")
def c06(ctx):
    return storefam.check_c06(ctx)


@register("C18")
def c18(ctx):
    return concfam.check_c18(ctx)


@register("C19")
def c19(ctx):
    return scfam.check_c19(ctx)


@register("C13")
def c13(ctx):
    return tempfam.check_c13(ctx)


@register("C14")
def c14(ctx):
    return tevalfam.check_c14(ctx)


@register("C16")
def c16(ctx):
    return interpfam.check_c16(ctx)


@register("C15")
def c15(ctx):
    return provfam.check_c15(ctx)


@register("C12")
def c12(ctx):
    return typefam.check_c12(ctx)


@register("C11")
def c11(ctx):
    return boundsfam.check_c11(ctx)


@register("C08")
def c08(ctx):
    return termfam.check_c08(ctx)


@register("C09")
def c09(ctx):
    return termfam.check_c09(ctx)


@register("C10")
def c10(ctx):
    return crashfam.check_c10(ctx)


@register("C07")
def c07(ctx):
    return builtinfam.check_c07(ctx)
