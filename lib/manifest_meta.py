HOOK_COMMITS = []
NOTES = ("All checks are driven by one TLA+ specification suite in spec/. Direction A: TLC enumerates or simulates "
         "inputs/behaviours (ProgGen, component state machines) that the Go harness replays into the real code; "
         "direction B: executions recorded from the real code are validated line by line by TLC trace "
         "specifications (Trace_*.tla). Verdicts come only from real-code observables re-run in a fresh process.")
PENDING = {}
META = {
 "C01": dict(level="model_checking", ref="DESIGN.md section 6 C01",
   technique="TLA+/TLC: ProgGen enumerates programs, SemiNaive.tla model-checked against Semantics.tla, real engine runs validated by Trace_Model",
   text="Bounded-exhaustive: every program of scope E1 (<=2 rules, <=2 literals, tight vocabulary) plus families and simulated larger programs is executed on every store and the whole resulting store is compared (both inclusions) by TLC with the stratified least model defined in Semantics.tla; the engine's round structure (SemiNaive.tla) is model-checked against the same definition.",
   note="Trusted: TLC, the hand-written Semantics.tla as the documented meaning, the JSON bridge (mgjson). Not covered: programs with run-time type errors, floats, external/deferred predicates."),
 "C20": dict(level="model_checking", ref="DESIGN.md section 6 C20",
   technique="TLA+/TLC: Naive.tla and SemiNaive.tla model-checked against Semantics.tla; both real evaluators run on TLC-generated programs and validated by Trace_Model",
   text="Both evaluators are executed from equal stores on every program of scope E1 (safe rules), every transform-free one-rule E2 program and simulated larger E2 programs; TLC compares each resulting store with the stratified model, so the two stores are equal whenever both match. Naive.tla (T20) and SemiNaive.tla (T01) are model-checked against the same definition.",
   note="Trusted: TLC, Semantics.tla, mgjson. Scope: transform-free programs as the property states; programs with kind errors are classified, not judged."),
 "C02": dict(level="model_checking", ref="DESIGN.md section 6 C02",
   technique="TLA+/TLC: Semantics!Aggregate as oracle, SemiNaive!DoPhase model-checked (tmp-name and feedback variants), TLC-generated aggregating programs replayed into the engine and validated by Trace_Model",
   text="Every program of <= 2 aggregating/reader rules of the aggregation vocabulary (single- and multi-atom bodies, 0/1/2 key variables, count/sum/min/max/avg/collect_distinct, several rules per head, aggregation over a recursive lower stratum, rules reading or recursing over the aggregate) x 4 base-fact sets, plus simulated 4-rule programs, is executed on all stores; TLC folds each rule's own solution set and compares all head facts (both inclusions).",
   note="Trusted: TLC, Semantics.tla, mgjson (float->exact ratio for averages, lists read as sets for collect_distinct). Not covered: wildcards in aggregated bodies, float reducers, collect (ordered), pick_any."),
}
