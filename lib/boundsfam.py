"""C11: facts of declared predicates conform to their declared bounds."""
import json
import os
import random

from vlib import InfraError, write_ndjson, read_ndjson, load_known_findings
import evalfam


def attribute(r, stored, open_ids):
    if "F29" in open_ids and r["tpl"] in ("fst", "snd") and r["t1"] == ["ty", "/any"] and stored["pred"] == "dst":
        return "F29 bounds inference accepts any declared type for the components of :match_pair on a scrutinee declared /any, e.g. %s" % r["text"].replace("\n", " ")
    if "F30" in open_ids and r["tpl"] == "cons_self" and stored["pred"] == "dst":
        return "F30 bounds inference ignores the head of fn:list:cons, e.g. %s" % r["text"].replace("\n", " ")
    tpl, pred = r["tpl"], stored["pred"]
    text = r["text"].replace("\n", " ")
    if "F55" in open_ids and tpl in ("match_cons_head", "match_cons_tail") and pred == "dst":
        return "F55 bounds inference gives the head and tail of :match_cons an unconstrained type variable, which conforms to every declared bound, e.g. %s" % text
    if "F56" in open_ids and tpl in ("cons_head_var", "append_var") and pred == "dst":
        return "F56 bounds inference types fn:list:cons(S, [1]) / fn:list:append([1], S) by one operand only, e.g. %s" % text
    if "F57" in open_ids and tpl.endswith("_modein") and pred == "dst":
        return "F57 a head argument with input mode is assumed to have its declared bound instead of being checked against it, e.g. %s" % text
    if "F58" in open_ids and tpl == "prefix_number" and pred == "dst" and stored["arg"] and stored["arg"][0] == "cn" and stored["arg"][1][0] == "number":
        return "F58 :match_prefix(X, /number) types X as the base type /number, e.g. %s" % text
    if "F59" in open_ids and tpl == "tagged_fact" and pred == "tg":
        return "F59 a stated fact of a tagged-union bound is accepted with the tag of one variant and the fields of another, e.g. %s" % text
    if "F60" in open_ids and tpl == "two_col_rows" and pred == "dst":
        return "F60 the rows of a multi-row declaration are tested for feasibility column by column over different rows, e.g. %s" % text
    if "F7c" in open_ids and stored["arg"] and stored["arg"][0] == "map":
        t = r["t1"] if pred == "src" else r["t2"]
        if t[0] == "tmap" and "cn" in json.dumps([kv[0] for kv in stored["arg"][1]]) and t[1][0] == "pre":
            return "F7c map bounds are checked contravariantly in the key type: a stated map whose name key lies outside the declared prefix is accepted, e.g. %s" % text
    if "F7b" in open_ids and stored["arg"] and stored["arg"][0] == "struct":
        t = r["t1"] if stored["pred"] == "src" else r["t2"]
        if t[0] == "tstruct" and sorted(kv[0][1][0] for kv in stored["arg"][1]) != sorted(f[0] for f in t[1]):
            return "F7b struct bounds accept a struct with more fields (width) but run-time membership demands exactly the declared fields, e.g. %s" % r["text"].replace("\n", " ")
    return None


def run_cases(ctx, cases_path, tag):
    rp = os.path.join(ctx.work, "res_%s.ndjson" % tag)
    ctx.run_vh(["bounds", "--in", cases_path, "--out", rp])
    val = ctx.validate(rp, module="Trace_Bounds")
    results = {r["id"]: r for r in read_ndjson(rp)}
    open_ids = {k["id"] for k in load_known_findings() if k.get("status") == "open"}
    oc = {}
    for r in results.values():
        oc[r["outcome"]] = oc.get(r["outcome"], 0) + 1
        ctx.evaluations += 1
        if r["outcome"] == "ok" and any(s["pred"] == "dst" for s in r["stored"]):
            ctx.nontrivial.add(r["text"])
    seen = set()
    for m in val["mismatches"]:
        r = results[m["id"]]
        stored = r["stored"][m["variant"]] if m["kind"] == "BOUNDS_VIOLATED" else dict(pred="", arg=None)
        kf = attribute(r, stored, open_ids) if m["kind"] == "BOUNDS_VIOLATED" else None
        if kf:
            ctx.known_finding(kf)
            continue
        key = (m["kind"], r["text"])
        if key in seen or len(seen) > 8:
            continue
        seen.add(key)
        cp = os.path.join(ctx.work, "confirm_%d.ndjson" % len(os.listdir(ctx.work)))
        write_ndjson(cp, [dict(id="confirm", t1=r["t1"], t2=r["t2"], t1b=r.get("t1b", []), t2b=r.get("t2b", []), unit=r.get("unit", []), tpl=r["tpl"], facts=r["facts"], dstfact=r.get("dstfact", []))])
        rp2 = cp.replace(".ndjson", ".res.ndjson")
        ctx.run_vh(["bounds", "--in", cp, "--out", rp2])
        val2 = ctx.validate(rp2, module="Trace_Bounds", shards=1)
        if not any(x["kind"] == m["kind"] for x in val2["mismatches"]):
            ctx.notes.setdefault("unreproduced", []).append(r["text"])
            continue
        r2 = read_ndjson(rp2)[0]
        bad = [s for s in r2["stored"] if not s["ok"]]
        ctx.violation("%s: accepted by AnalyzeAndCheckBounds(ErrorForBoundsMismatch) but %s | %s" % (m["kind"], bad[0]["err"][:200] if bad else r2.get("err", ""), r["text"].replace("\n", " ")),
                      dict(property="C11", replay_family="bounds", kind=m["kind"], case=dict(id="replay", t1=r["t1"], t2=r["t2"], t1b=r.get("t1b", []), t2b=r.get("t2b", []), unit=r.get("unit", []), tpl=r["tpl"], facts=r["facts"], dstfact=r.get("dstfact", [])), program_text=r["text"], observed=r2["stored"]))
    if ctx.notes.get("unreproduced") and not ctx.violations:
        raise InfraError("bounds mismatch did not reproduce: %s" % ctx.notes["unreproduced"][:1])
    drift = 0
    for fn in os.listdir(ctx.work):
        if fn.startswith("val_res_%s" % tag):
            with open(os.path.join(ctx.work, fn), errors="replace") as f:
                drift += sum(1 for x in f if x.startswith('<<"DRIFT"'))
    ctx.notes.setdefault("sources", {})[tag] = dict(cases=len(results), outcomes=oc, rejected=len(val["mismatches"]), hastype_vs_spec_drift=drift)
    return results


def check_c11(ctx):
    rnd = random.Random(ctx.seed)
    quick = ctx.tier == "quick"
    ctx.build_vh()
    allp = os.path.join(ctx.work, "bounds_all.ndjson")
    if quick:
        g = ctx.gen_cases("BoundsGen", "BoundsGen_sim.cfg", allp, simulate=dict(num=30000, depth=3), idprefix="b-")
    else:
        g = ctx.gen_cases("BoundsGen", "BoundsGen.cfg", allp, workers=8, idprefix="b-")
    runp = os.path.join(ctx.work, "bounds.ndjson")
    n = evalfam.sample_file(allp, runp, 25000 if quick else None, rnd)
    ctx.notes["generators"] = dict(programs=g["cases"], executed=n, exhaustive=not quick)
    ctx.exhaustive = not quick
    res = run_cases(ctx, runp, "bounds")
    # predicates with two bound rows (alternatives) and bodies where a later premise refines the type an earlier one gave
    allp2 = os.path.join(ctx.work, "rows_all.ndjson")
    if quick:
        g2 = ctx.gen_cases("BoundsGen", "BoundsGen_rows_sim.cfg", allp2, simulate=dict(num=25000, depth=3), idprefix="r-")
    else:
        g2 = ctx.gen_cases("BoundsGen", "BoundsGen_rows.cfg", allp2, workers=8, idprefix="r-")
    runp2 = os.path.join(ctx.work, "rows.ndjson")
    n2 = evalfam.sample_file(allp2, runp2, 25000 if quick else None, rnd)
    ctx.notes["generators"].update(row_programs=g2["cases"], row_programs_executed=n2)
    res.update(run_cases(ctx, runp2, "rows"))
    # undeclared predicates in a recursion cycle (types inferred while the cycle is visited), unit clause + wider later clause,
    # a declared consumer; every shape with both lexical name orders (the inference visits predicates by name)
    allp3 = os.path.join(ctx.work, "recur_all.ndjson")
    g3 = ctx.gen_cases("BoundsGen", "BoundsGen_recur.cfg", allp3, workers=8, idprefix="c-")
    runp3 = os.path.join(ctx.work, "recur.ndjson")
    n3 = evalfam.sample_file(allp3, runp3, 8000 if quick else None, rnd)
    ctx.notes["generators"].update(recursive_programs=g3["cases"], recursive_programs_executed=n3)
    res.update(run_cases(ctx, runp3, "recur"))
    # name-prefix refinement by positive / negated :match_prefix on prefix- and union-typed variables (exhaustive)
    runp4 = os.path.join(ctx.work, "prefix.ndjson")
    g4 = ctx.gen_cases("BoundsGen", "BoundsGen_prefix.cfg", runp4, workers=4, idprefix="x-")
    ctx.notes["generators"].update(prefix_programs=g4["cases"])
    res.update(run_cases(ctx, runp4, "prefix"))
    # a base fact stated for the rule-defined predicate itself
    allp5 = os.path.join(ctx.work, "dstfact_all.ndjson")
    if quick:
        g5 = ctx.gen_cases("BoundsGen", "BoundsGen_dstfact_sim.cfg", allp5, simulate=dict(num=14000, depth=3), idprefix="d-")
    else:
        g5 = ctx.gen_cases("BoundsGen", "BoundsGen_dstfact.cfg", allp5, workers=8, idprefix="d-")
    runp5 = os.path.join(ctx.work, "dstfact.ndjson")
    n5 = evalfam.sample_file(allp5, runp5, 12000 if quick else None, rnd)
    ctx.notes["generators"].update(dstfact_programs=g5["cases"], dstfact_programs_executed=n5)
    res.update(run_cases(ctx, runp5, "dstfact"))
    k = 0
    for r in res.values():
        if r["outcome"] == "ok" and any(s["pred"] == "dst" for s in r["stored"]):
            ctx.add_sample(dict(program=r["text"], stored=[(s["pred"], json.dumps(s["arg"]), s["ok"]) for s in r["stored"]]), cap=3)
            k += 1
            if k > 3:
                break
    ctx.assumptions += ["the judge is the library's own run-time check builtin.TypeChecker.CheckTypeBounds on every stored fact of a declared predicate; Types!Member is compared as drift only",
                        "the inference algorithm itself is not modelled, only its soundness contract (accepted => every stored fact within its declared bounds)"]
    return ctx.finish("model_checking",
                      "programs generated by TLC (BoundsGen): 14 source bounds x 19 destination bounds x 13 rule templates (copy, construct pair/list/map, destructure pair/list/struct, join, compute, convert) x base facts over a 20-constant witness universe, plus the multi-row family (two bound rows per predicate x 7 templates in which a wide premise and the multi-row premise refine the same variable in either order) and the recursive family (undeclared mutually / self / 3-cycle recursive predicates with a unit clause and a wider later clause, both name orders) "
                      "(admitted and not admitted by the bound); each goes through AnalyzeAndCheckBounds(ErrorForBoundsMismatch), accepted ones are evaluated and every stored fact is checked by CheckTypeBounds; "
                      "non-trivial = accepted program that derives a dst fact; distinct by program text")


def replay(ctx, obj):
    ctx.build_vh()
    cp = os.path.join(ctx.work, "replay.ndjson")
    write_ndjson(cp, [obj["case"]])
    run_cases(ctx, cp, "replay")
    ctx.nontrivial.update(["r1", "r2"])
    ctx.add_sample(obj.get("program_text", ""))
    return ctx.finish("model_checking", "replay of one bounds program")
