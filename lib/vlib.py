"""Shared machinery for the /verif checks: TLC runs, Go harness runs, verdict policy, evidence.

Exit codes (DESIGN.md section 5): 0 = property held on everything explored (KNOWN-FINDING lines
allowed), 1 = VIOLATION line printed, 2 = infrastructure error (never a violation).
"""
import json
import os
import re
import shutil
import subprocess
import sys
import time
import hashlib

ROOT = os.path.dirname(os.path.dirname(os.path.abspath(__file__)))
SPEC = os.path.join(ROOT, "spec")
HARNESS = os.path.join(ROOT, "harness")
TLA_CP = "/opt/veriftools/tla/tla2tools.jar:/opt/veriftools/tla/CommunityModules-deps.jar"
NCPU = os.cpu_count() or 4


class InfraError(Exception):
    pass


def goenv():
    env = dict(os.environ)
    env["GOFLAGS"] = "-mod=mod"
    env["GOPROXY"] = "off"
    env.pop("GOTOOLCHAIN", None)  # must stay 'auto' (switches offline to the cached go1.25.0)
    env.pop("GOSUMDB", None)
    return env


def log(*a):
    print(*a, file=sys.stderr, flush=True)


def unescape_tla_string(body):
    """TLC prints strings with \\" and \\\\ escapes, which are JSON-compatible."""
    return json.loads('"' + body + '"')


class Ctx:
    def __init__(self, prop, tier, seed):
        self.prop = prop
        self.tier = tier
        self.seed = seed
        self.t0 = time.time()
        # development aid (VERIF_REPO, see build_vh): separate work directory, evidence kept out of evidence/
        self.dev = bool(os.environ.get("VERIF_REPO"))
        self.work = os.path.join(ROOT, "work", ("dev_" + os.environ.get("VERIF_WORKTAG", "") if self.dev else "") + prop)
        shutil.rmtree(self.work, ignore_errors=True)
        os.makedirs(self.work)
        self.specdir = os.path.join(self.work, "spec")
        shutil.copytree(SPEC, self.specdir)
        self.vh = None
        # evidence accumulators
        self.states = 0
        self.transitions = 0
        self.traces = 0
        self.evaluations = 0
        self.nontrivial = set()
        self.samples = []
        self.notes = {}
        self.assumptions = []
        self.violations = []   # list of dict(kind, replay, summary)
        self.known = []        # list of strings
        self.tlc_runs = []
        self.exhaustive = False

    # ------------------------------------------------------------------ building
    def build_vh(self, race=False):
        out = os.path.join(self.work, "vh-race" if race else "vh")
        cmd = ["go", "build", "-tags", "verif"]
        if race:
            cmd.append("-race")
        alt = os.environ.get("VERIF_REPO")
        if alt:
            # development aid only (never set by a registered command): build against another checkout,
            # with its own work directory, so that /repo can be busy with a seeded change meanwhile
            mod = os.path.join(self.work, "alt.mod")
            with open(os.path.join(HARNESS, "go.mod")) as f, open(mod, "w") as o:
                o.write(f.read().replace("=> /repo", "=> " + alt))
            shutil.copy(os.path.join(HARNESS, "go.sum"), os.path.join(self.work, "alt.sum"))
            cmd += ["-modfile", mod]
        cmd += ["-o", out, "./cmd/vh"]
        p = subprocess.run(cmd, cwd=HARNESS, env=goenv(), capture_output=True, text=True)
        if p.returncode != 0:
            raise InfraError("go build of the harness against /repo failed:\n" + p.stdout + p.stderr)
        if not race:
            self.vh = out
        return out

    def timing(self, what, dt):
        t = self.notes.setdefault("timing_s", {})
        t[what] = round(t.get(what, 0) + dt, 1)

    def run_vh(self, args, timeout=3600, binary=None, env=None, check=True, input_text=None):
        e = goenv()
        if env:
            e.update(env)
        t0 = time.time()
        p = subprocess.run([binary or self.vh] + args, capture_output=True, text=True, timeout=timeout, env=e, input=input_text)
        self.timing("vh " + (args[0] if args else ""), time.time() - t0)
        if check and p.returncode != 0:
            raise InfraError("vh %s failed (exit %d):\n%s" % (" ".join(args[:3]), p.returncode, (p.stdout + p.stderr)[-4000:]))
        return p

    # ------------------------------------------------------------------ TLC
    def tlc_cmd(self, module, cfg, workers=1, extra=None, heap="6g", stack="256m", deque=False):
        md = os.path.join(self.work, "meta", "%s_%d" % (module, len(self.tlc_runs) + int(time.time() * 1000) % 100000))
        cmd = ["java", "-XX:+UseParallelGC", "-Xmx" + heap, "-Xss" + stack]
        if deque:
            cmd.append("-Dtlc2.tool.queue.IStateQueue=StateDeque")
        cmd += ["-cp", TLA_CP, "tlc2.TLC", "-metadir", md, "-workers", str(workers), "-config", cfg]
        cmd += (extra or [])
        cmd.append(module + ".tla")
        return cmd

    def scaled(self, timeout):
        """TLC time limits are generous in the thorough tier (large scopes, possibly a loaded machine)."""
        return timeout * (8 if self.tier == "thorough" else 2)

    def tlc(self, module, cfg=None, workers=1, extra=None, env=None, timeout=1800, outname=None, heap="6g", deque=False, expect_violation=False):
        """Run TLC in the scratch copy of the spec directory. Returns dict with output path and counters."""
        timeout = self.scaled(timeout)
        cfg = cfg or (module + ".cfg")
        cmd = self.tlc_cmd(module, cfg, workers, extra, heap, deque=deque)
        outpath = os.path.join(self.work, outname or ("tlc_%s_%d.out" % (module, len(self.tlc_runs))))
        e = dict(os.environ)
        if env:
            e.update(env)
        t0 = time.time()
        with open(outpath, "w") as out:
            try:
                p = subprocess.run(cmd, cwd=self.specdir, stdout=out, stderr=subprocess.STDOUT, env=e, timeout=timeout)
            except subprocess.TimeoutExpired:
                raise InfraError("TLC timeout (%ds) on %s/%s" % (timeout, module, cfg))
        res = self.parse_tlc(outpath)
        res.update(module=module, cfg=cfg, wall_s=round(time.time() - t0, 2), rc=p.returncode, out=outpath)
        self.timing("tlc " + module, time.time() - t0)
        self.tlc_runs.append({k: res[k] for k in ("module", "cfg", "generated", "distinct", "wall_s", "rc")})
        self.states += res["distinct"]
        self.transitions += res["generated"]
        if res["fatal"] and not expect_violation:
            raise InfraError("TLC failed on %s/%s: %s (see %s)" % (module, cfg, res["fatal"], outpath))
        return res

    @staticmethod
    def parse_tlc(outpath):
        generated = distinct = 0
        fatal = None
        violated = None
        with open(outpath, errors="replace") as f:
            for line in f:
                m = re.match(r"(\d+) states generated, (\d+) distinct states found", line)
                if m:
                    generated, distinct = int(m[1]), int(m[2])
                    continue
                if line.startswith("Error: Invariant") or "is violated" in line and line.startswith("Error:"):
                    violated = line.strip()
                elif line.startswith("Error:") and fatal is None and violated is None:
                    fatal = line.strip()
                m = re.match(r"The number of states generated: (\d+)", line)
                if m and generated == 0:
                    generated = int(m[1])
        if violated:
            fatal = fatal or violated
        return dict(generated=generated, distinct=distinct, fatal=fatal, violated=violated)

    def tlc_parallel(self, jobs, timeout=1800):
        timeout = self.scaled(timeout)
        """jobs: list of (module, cfg, env, outname). Runs them concurrently (one worker each)."""
        procs = []
        t_start = time.time()
        for (module, cfg, env, outname) in jobs:
            cmd = self.tlc_cmd(module, cfg, 1, None, "3g")
            outpath = os.path.join(self.work, outname)
            e = dict(os.environ)
            e.update(env or {})
            out = open(outpath, "w")
            procs.append((subprocess.Popen(cmd, cwd=self.specdir, stdout=out, stderr=subprocess.STDOUT, env=e), out, outpath, module, cfg))
            time.sleep(0.01)
        results = []
        deadline = time.time() + timeout
        for p, out, outpath, module, cfg in procs:
            try:
                p.wait(timeout=max(1, deadline - time.time()))
            except subprocess.TimeoutExpired:
                for q in procs:
                    q[0].kill()
                raise InfraError("TLC timeout on %s" % module)
            out.close()
            res = self.parse_tlc(outpath)
            res.update(module=module, cfg=cfg, out=outpath, rc=p.returncode)
            self.states += res["distinct"]
            self.transitions += res["generated"]
            if res["fatal"]:
                raise InfraError("TLC failed on %s/%s: %s (see %s)" % (module, cfg, res["fatal"], outpath))
            results.append(res)
        self.timing("tlc " + jobs[0][0], time.time() - t_start)
        self.tlc_runs.append(dict(module=jobs[0][0], cfg=jobs[0][1], shards=len(jobs),
                                  generated=sum(r["generated"] for r in results),
                                  distinct=sum(r["distinct"] for r in results)))
        return results

    # ------------------------------------------------------------------ case generation (direction A)
    def gen_cases(self, module, cfg, out, simulate=None, workers=8, limit=None, idprefix="", timeout=1800, extra_fields=None):
        """Run a generator spec; collect the JSON lines it prints as <<"CASE", "...">> into `out`."""
        extra = []
        if simulate:
            # num is per worker: use one worker for reproducibility
            extra = ["-simulate", "num=%d" % simulate["num"], "-depth", str(simulate.get("depth", 20)), "-seed", str(self.seed)]
            workers = 1
        res = self.tlc(module, cfg, workers=workers, extra=extra, timeout=timeout)
        n = 0
        seen = set()
        with open(res["out"], errors="replace") as f, open(out, "w") as o:
            for line in f:
                if not line.startswith('<<"CASE", "'):
                    continue
                body = line.rstrip("\n")[len('<<"CASE", "'):-3]
                s = unescape_tla_string(body)
                if simulate:
                    h = hashlib.md5(s.encode()).digest()
                    if h in seen:
                        continue
                    seen.add(h)
                d = json.loads(s)
                d["id"] = "%s%d" % (idprefix, n)
                if extra_fields:
                    d.update(extra_fields)
                n += 1
                o.write(json.dumps(d) + "\n")
                if limit and n >= limit:
                    break
        res["cases"] = n
        return res

    # ------------------------------------------------------------------ trace validation (direction B)
    def validate(self, results_path, module="Trace_Model", cfg=None, shards=None, timeout=1800):
        """Split an ndjson trace into shards, validate each with TLC, collect CLASS / MISMATCH lines."""
        with open(results_path) as f:
            lines = f.readlines()
        n = len(lines)
        if n == 0:
            return dict(classes={}, mismatches=[], consumed=0)
        shards = shards or min(NCPU, max(1, n // 300))
        per = (n + shards - 1) // shards
        jobs = []
        base = os.path.basename(results_path)
        for i in range(shards):
            chunk = lines[i * per:(i + 1) * per]
            if not chunk:
                continue
            sp = os.path.join(self.work, "%s.shard%d" % (base, i))
            with open(sp, "w") as o:
                o.writelines(chunk)
            jobs.append((module, cfg or (module + ".cfg"), {"TRACE": sp}, "val_%s_%d.out" % (base, i)))
        results = self.tlc_parallel(jobs, timeout=timeout)
        classes = {}
        mism = []
        missing = {}
        consumed = 0
        for r in results:
            with open(r["out"], errors="replace") as f:
                for line in f:
                    if line.startswith('<<"CLASS"'):
                        m = re.match(r'<<"CLASS", (.+), "(\w+)">>$', line.strip())
                        classes[json.loads(m[1])] = m[2]
                    elif line.startswith('<<"MISSING"'):
                        m = re.match(r'<<"MISSING", (.+?), (\d+), "(.*)">>$', line.strip())
                        missing[(m[1], int(m[2]) - 1)] = json.loads(unescape_tla_string(m[3]))
                    elif line.startswith('<<"MISMATCH"'):
                        m = re.match(r'<<"MISMATCH", (.+?), (\d+), "(\w+)", "(.*)">>$', line.strip())
                        exp = unescape_tla_string(m[4])
                        mism.append(dict(id=json.loads(m[1]), variant=int(m[2]) - 1, kind=m[3],
                                         expected=None if exp == "null" else json.loads(exp),
                                         missing=missing.get((m[1], int(m[2]) - 1), [])))
                    elif line.startswith('<<"CONSUMED"'):
                        consumed += int(re.match(r'<<"CONSUMED", (\d+)>>', line)[1])
        if consumed != n:
            raise InfraError("trace validation consumed %d of %d lines of %s" % (consumed, n, results_path))
        self.traces += n
        return dict(classes=classes, mismatches=mism, consumed=consumed)

    def validate_events(self, trace_path, module, boundary='{"base":', shards=None, timeout=1800):
        """Validate a concatenated event trace (histories separated by reset events, which start with
        `boundary`) in parallel shards cut at history boundaries. Returns mismatches as
        dict(id, line (1-based in the whole file), ev, expected) and the shard line ranges."""
        with open(trace_path) as f:
            lines = f.readlines()
        n = len(lines)
        if n == 0:
            return []
        shards = shards or min(NCPU, max(1, n // 20000))
        per = n // shards
        cuts = [0]
        for i in range(1, shards):
            j = max(i * per, cuts[-1])
            while j < n and not lines[j].startswith(boundary):
                j += 1
            if j > cuts[-1] and j < n:
                cuts.append(j)
        cuts.append(n)
        jobs = []
        base = os.path.basename(trace_path)
        for i in range(len(cuts) - 1):
            sp = os.path.join(self.work, "%s.shard%d" % (base, i))
            with open(sp, "w") as o:
                o.writelines(lines[cuts[i]:cuts[i + 1]])
            jobs.append((module, module + ".cfg", {"TRACE": sp}, "val_%s_%d.out" % (base, i)))
        results = self.tlc_parallel(jobs, timeout=timeout)
        mism = []
        consumed = 0
        self.last_classes = {}
        for i, r in enumerate(results):
            with open(r["out"], errors="replace") as f:
                for line in f:
                    if line.startswith('<<"CLASS"'):
                        k = line.strip().rsplit('"', 2)[1]
                        self.last_classes[k] = self.last_classes.get(k, 0) + 1
                    elif line.startswith('<<"MISMATCH"'):
                        m = re.match(r'<<"MISMATCH", (.+?), (\d+), "(\w+)", "(.*)">>$', line.strip())
                        mism.append(dict(id=json.loads(m[1]), line=cuts[i] + int(m[2]), ev=m[3], expected=unescape_tla_string(m[4])))
                    elif line.startswith('<<"CONSUMED"'):
                        consumed += int(re.match(r'<<"CONSUMED", (\d+)>>', line)[1])
        if consumed != n:
            raise InfraError("trace validation consumed %d of %d events of %s" % (consumed, n, trace_path))
        self.traces += sum(1 for l in lines if l.startswith(boundary))
        self.last_trace_lines = lines
        return mism

    # ------------------------------------------------------------------ verdicts
    def write_replay(self, name, obj):
        d = os.path.join(self.work, "replay")
        os.makedirs(d, exist_ok=True)
        p = os.path.join(d, name + ".json")
        with open(p, "w") as f:
            json.dump(obj, f, indent=1)
        return p

    def violation(self, summary, replay_obj):
        idx = len(self.violations)
        path = self.write_replay("violation_%d" % idx, replay_obj)
        self.violations.append(dict(summary=summary, replay=path))

    def known_finding(self, text):
        """One KNOWN-FINDING line per finding id (the first word); further hits are counted."""
        fid = text.split(" ", 1)[0]
        self.known_counts = getattr(self, "known_counts", {})
        self.known_counts[fid] = self.known_counts.get(fid, 0) + 1
        if not any(k.split(" ", 1)[0] == fid for k in self.known):
            self.known.append(text)

    def add_sample(self, s, cap=6):
        if len(self.samples) < cap:
            self.samples.append(s)

    def finish(self, level, rule, extra_cov=None, max_report=5):
        cov = dict(
            states=self.states, transitions=self.transitions,
            traces_validated_against_impl=self.traces,
            evaluations=self.evaluations, distinct_nontrivial=len(self.nontrivial),
            rule=rule, samples=self.samples[:8] or ["(none)"], exhaustive=self.exhaustive,
            tlc_runs=self.tlc_runs, notes=self.notes,
        )
        if extra_cov:
            cov.update(extra_cov)
        ev = dict(property_id=self.prop, tier=self.tier, seed=self.seed, level=level, coverage=cov,
                  assumptions=self.assumptions, wall_s=round(time.time() - self.t0, 1),
                  violations=len(self.violations), known_findings=self.known)
        os.makedirs(os.path.join(ROOT, "evidence"), exist_ok=True)
        with open(os.path.join(self.work if self.dev else os.path.join(ROOT, "evidence"), self.prop + ".json"), "w") as f:
            json.dump(ev, f, indent=1, default=str)
        for k in self.known:
            print("KNOWN-FINDING: property=%s %s" % (self.prop, k))
        for v in self.violations[:max_report]:
            print("VIOLATION property=%s replay=%s" % (self.prop, v["replay"]))
            print("  " + v["summary"])
        if len(self.violations) > max_report:
            print("  (+%d more violations, see %s)" % (len(self.violations) - max_report, os.path.join(self.work, "replay")))
        print("%s %s tier=%s seed=%d: %s in %.0fs (states=%d traces=%d evaluations=%d)" % (
            self.prop, "FAIL" if self.violations else "PASS", self.tier, self.seed,
            "%d violation(s)" % len(self.violations) if self.violations else "property held on everything explored",
            time.time() - self.t0, self.states, self.traces, self.evaluations))
        return 1 if self.violations else 0


# ---------------------------------------------------------------------- known findings
def load_known_findings():
    p = os.path.join(ROOT, "known_findings.jsonl")
    out = []
    if os.path.exists(p):
        for line in open(p):
            line = line.strip()
            if line and not line.startswith("#"):
                out.append(json.loads(line))
    return out


def read_ndjson(path):
    with open(path) as f:
        return [json.loads(l) for l in f if l.strip()]


def write_ndjson(path, items):
    with open(path, "w") as f:
        for it in items:
            f.write(json.dumps(it) + "\n")
