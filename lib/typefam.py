"""C12: type conformance is sound for membership; bounds are bounds."""
import json
import os
import re

from vlib import InfraError, read_ndjson, load_known_findings, unescape_tla_string
import evalfam


def gen_space(ctx):
    res = ctx.tlc("TypeGen", "TypeGen.cfg", workers=1)
    if res["violated"]:
        raise InfraError("TypeGen invariant violated: %s" % res["violated"])
    with open(res["out"], errors="replace") as f:
        for line in f:
            if line.startswith('<<"CASE", "'):
                d = json.loads(unescape_tla_string(line.rstrip("\n")[len('<<"CASE", "'):-3]))
                p = os.path.join(ctx.work, "space.json")
                json.dump(d, open(p, "w"))
                return p, d
    raise InfraError("TypeGen printed no type space")


def validate(ctx, trace_path, tag):
    res = ctx.tlc("Trace_Types", "Trace_Types.cfg", workers=1, env={"TRACE": trace_path}, outname="val_%s.out" % tag)
    ms, drift, consumed = [], 0, False
    with open(res["out"], errors="replace") as f:
        for line in f:
            m = re.match(r'<<"MISMATCH", (\d+), (\d+), "(\w+)", "(.*)">>$', line.strip())
            if m:
                ms.append(dict(i=int(m[1]), j=int(m[2]), kind=m[3], extra=unescape_tla_string(m[4])))
            elif line.startswith('<<"DRIFT"'):
                drift += 1
            elif line.startswith('<<"CONSUMED"'):
                consumed = True
    if not consumed:
        raise InfraError("Trace_Types did not consume the trace (see %s)" % res["out"])
    return ms, drift


def field_names(t):
    return sorted(f[0] for f in t[1])


def outside_tagged(t, wit):
    """The struct value wit is certainly no member of the tagged union t: its tag names no variant, or its other
    fields are not that variant's fields (by name)."""
    tagf = t[1]
    fields = {kv[0][1][0]: kv[1] for kv in wit[1]}
    if tagf not in fields or fields[tagf][0] != "cn" or len(fields[tagf][1]) != 1:
        return True
    for v in t[2]:
        if v[0] == fields[tagf][1][0]:
            required = sorted(f[0] for f in v[1] if not f[2])
            allowed = sorted(f[0] for f in v[1])
            others = sorted(k for k in fields if k != tagf)
            return not (all(k in allowed for k in others) and all(k in others for k in required))
    return True


def attribute(tr, m, open_ids, unsound_pairs):
    """Known-finding attribution for one rejected conformance / bound."""
    if m["kind"] == "UNSOUND_CONFORMANCE":
        S, T = tr[m["i"]], tr[m["j"]]
        s, t = S["type"], T["type"]
        wit = json.loads(m["extra"])["c"] if m["extra"] != "null" else None
        if "F7b" in open_ids and s[0] in ("tstruct", "ttagged") and t[0] == "tstruct" and wit and wit[0] == "struct":
            wnames = sorted(kv[0][1][0] for kv in wit[1])
            if wnames != field_names(t):
                return "F7b struct conformance is width subtyping but membership demands exactly the declared fields, e.g. %s <: %s with %s" % (S["text"], T["text"], json.dumps(wit))
        if "F61" in open_ids and t[0] == "ttagged" and s[0] in ("tstruct", "ttagged") and wit and wit[0] == "struct" and any(kv[0][1] == [t[1]] for kv in wit[1]) and outside_tagged(t, wit):
            return "F61 conformance to a tagged union reads the tag field as /name: a struct type with the tag field conforms whatever its tag and fields, e.g. %s <: %s with %s" % (S["text"], T["text"], json.dumps(wit))
        if "F7c" in open_ids and s[0] == "tmap" and t[0] == "tmap":
            # key types conform only contravariantly
            def idx_of(ty):
                for k, e in enumerate(tr):
                    if e.get("ev") == "type" and e["type"] == ty:
                        return k
                return None
            ks, kt = idx_of(s[1]), idx_of(t[1])
            if ks is not None and kt is not None and ks != kt and ks in tr[kt]["conf"] and kt not in tr[ks]["conf"]:
                return "F7c map types are contravariant in the key but membership is covariant, e.g. %s <: %s with %s" % (S["text"], T["text"], json.dumps(wit))
        return None
    # bounds: explained when two of the listed types form an unsound pair that is itself attributed
    e = tr[m["i"]]
    for a in e["idx"]:
        for b in e["idx"]:
            if (a, b) in unsound_pairs:
                return unsound_pairs[(a, b)].split(",")[0] + " (and the bounds computed from such a pair, e.g. of %s)" % [tr[k]["text"] for k in e["idx"]]
    return None


def check_c12(ctx):
    quick = ctx.tier == "quick"
    ctx.build_vh()
    spacep, space = gen_space(ctx)
    tp = os.path.join(ctx.work, "types.trace.ndjson")
    ctx.run_vh(["types", "--in", spacep, "--out", tp, "--bounds", str(3000 if quick else 40000), "--seed", str(ctx.seed)])
    tr = read_ndjson(tp)
    ms, drift = validate(ctx, tp, "types")
    ntypes = sum(1 for e in tr if e.get("ev") == "type")
    nbounds = sum(1 for e in tr if e.get("ev") == "bounds")
    nconf = sum(len(e["conf"]) for e in tr if e.get("ev") == "type")
    ctx.evaluations += ntypes * ntypes + nbounds + ntypes * len(space["universe"])
    ctx.traces += 1
    for e in tr:
        if e.get("ev") == "type":
            for j in e["conf"]:
                ctx.nontrivial.add((e["id"], j))
    ctx.notes["space"] = dict(types_well_formed=ntypes, types_generated=len(space["types"]), universe=len(space["universe"]), ordered_pairs=ntypes * (ntypes - 1),
                              conformances_affirmed=nconf, bound_lists=nbounds, hastype_differs_from_spec_drift=drift)
    open_ids = {k["id"] for k in load_known_findings() if k.get("status") == "open"}
    unsound_pairs = {}
    pending = []
    for m in ms:
        if m["kind"] == "UNSOUND_CONFORMANCE":
            kf = attribute(tr, m, open_ids, unsound_pairs)
            if kf:
                unsound_pairs[(m["i"], m["j"])] = kf
                ctx.known_finding(kf)
            else:
                pending.append(m)
    for m in ms:
        if m["kind"] != "UNSOUND_CONFORMANCE":
            kf = attribute(tr, m, open_ids, unsound_pairs)
            if kf:
                ctx.known_finding(kf)
            else:
                pending.append(m)
    # every computation here is deterministic; re-running in a fresh process is the confirmation
    if pending:
        tp2 = os.path.join(ctx.work, "types2.trace.ndjson")
        ctx.run_vh(["types", "--in", spacep, "--out", tp2, "--bounds", str(3000 if quick else 40000), "--seed", str(ctx.seed)])
        tr2 = read_ndjson(tp2)
        ms2, _ = validate(ctx, tp2, "types2")
        again = {(x["kind"], x["i"], x["j"]) for x in ms2}
        for m in pending[:8]:
            if (m["kind"], m["i"], m["j"]) not in again:
                raise InfraError("type mismatch did not reproduce: %s" % m)
            if m["kind"] == "UNSOUND_CONFORMANCE":
                S, T = tr[m["i"]], tr[m["j"]]
                ctx.violation("conformance %s <: %s is affirmed but %s is a member of the left type only (library HasType)" % (S["text"], T["text"], m["extra"]),
                              dict(property="C12", replay_family="types", kind=m["kind"], left=S["type"], right=T["type"], witness=m["extra"], space=spacep))
            else:
                e = tr[m["i"]]
                ctx.violation("%s for %s: upper bound %s, lower bound %s" % (m["kind"], [tr[k]["text"] for k in e["idx"]], e.get("ub"), e.get("lb")),
                              dict(property="C12", replay_family="types", kind=m["kind"], types=[tr[k]["type"] for k in e["idx"]], ub=e.get("ub"), lb=e.get("lb")))
    ctx.add_sample(dict(type=tr[5]["text"], members=[json.dumps(space["universe"][k]) for k, b in enumerate(tr[5]["row"]) if b][:8], conforms_to=[tr[j]["text"] for j in tr[5]["conf"]][:8]))
    ctx.add_sample(dict(bounds_of=[tr[k]["text"] for k in tr[ntypes + 5]["idx"]], ub=tr[ntypes + 5].get("ub"), lb=tr[ntypes + 5].get("lb")))
    ctx.exhaustive = True
    ctx.assumptions += ["membership is the library's own HasType on a witness universe of %d constants that separates the type space; the spec's Member relation is compared as drift only" % len(space["universe"]),
                        "type expressions the library rejects as ill-formed are left out (e.g. singletons of non-name constants)"]
    return ctx.finish("model_checking",
                      "all ordered pairs of the well-formed closed type expressions of nesting depth <= 2 generated by TLC (base types, name-prefix types incl. the confusable /foo /foobar /num, singletons, unions, pairs, lists, maps, structs with optional fields), "
                      "all pairs and random triples for UpperBound/LowerBound; TLC checks the subset relations on HasType rows; non-trivial/distinct = affirmed conformances")


def replay(ctx, obj):
    return check_c12(ctx)
