"""C10: no input text can crash the front end."""
import json
import os
import random
import subprocess

from vlib import InfraError, write_ndjson, read_ndjson, goenv
import evalfam

SEEDS = os.path.join(evalfam.ROOT, "cases", "crash_seeds.txt")
SCSEEDS = os.path.join(evalfam.ROOT, "cases", "crash_scseeds.txt")


def run_batch(ctx, lines, tag):
    """Run one batch in a child process with a memory limit. Returns (ok, results_path)."""
    ip = os.path.join(ctx.work, "batch_%s.ndjson" % tag)
    op = os.path.join(ctx.work, "batch_%s.res.ndjson" % tag)
    with open(ip, "w") as o:
        o.writelines(lines)
    cmd = "ulimit -v 6000000; exec %s crash --in %s --out %s --seeds %s --scseeds %s --workers 8" % (ctx.vh, ip, op, SEEDS, SCSEEDS)
    try:
        p = subprocess.run(["bash", "-c", cmd], capture_output=True, text=True, timeout=900, env=goenv())
    except subprocess.TimeoutExpired:
        return False, op, "child process did not finish within 900 s"
    if p.returncode != 0:
        return False, op, (p.stderr or "")[:1500]
    return True, op, ""


def isolate(ctx, lines, tag, depth=0):
    """The batch killed the process (fatal runtime error, out of memory): bisect to single inputs."""
    if len(lines) == 1:
        ok, _, err = run_batch(ctx, lines, tag + "_single")
        return [] if ok else [(lines[0], err)]
    mid = len(lines) // 2
    out = []
    for half, t in ((lines[:mid], "a"), (lines[mid:], "b")):
        ok, _, err = run_batch(ctx, half, tag + t)
        if not ok:
            out += isolate(ctx, half, tag + t, depth + 1)
        if len(out) >= 3:
            break
    return out


def process(ctx, cases_path, tag, batch=4000):
    with open(cases_path) as f:
        lines = f.readlines()
    all_res = os.path.join(ctx.work, "crash_%s.res.ndjson" % tag)
    with open(all_res, "w") as out:
        for b in range(0, len(lines), batch):
            chunk = lines[b:b + batch]
            ok, op, err = run_batch(ctx, chunk, "%s_%d" % (tag, b))
            if ok:
                out.write(open(op).read())
                continue
            culprits = isolate(ctx, chunk, "%s_%d" % (tag, b))
            if not culprits:
                raise InfraError("a batch of %s died but no single input reproduces it: %s" % (tag, err[:300]))
            for line, e in culprits:
                c = json.loads(line)
                ctx.violation("the process died (fatal runtime error) on one input: %s ... %s" % (json.dumps(c)[:300], e[:300]),
                              dict(property="C10", replay_family="crash", kind="PROCESS_DIED", case=c, stderr=e))
            # go on with the rest of the batch, input by input is too slow: skip this batch's survivors
    val = ctx.validate(all_res, module="Trace_Frontend")
    results = {r["id"]: r for r in read_ndjson(all_res)}
    deep = 0
    for r in results.values():
        ctx.evaluations += len(r["stages"])
        if any(s["name"] in ("analysis", "sc.lazy.queries") and s["outcome"] != "skipped" for s in r["stages"]):
            deep += 1
            ctx.nontrivial.add(r["input"][:300])
    seen = set()
    for m in val["mismatches"]:
        r = results[m["id"]]
        st = r["stages"][m["variant"]]
        key = (m["kind"], st["name"], st.get("detail", "")[:60])
        if key in seen or len(seen) > 8:
            continue
        seen.add(key)
        # confirm in a fresh process
        cp = os.path.join(ctx.work, "confirm_%d.ndjson" % len(os.listdir(ctx.work)))
        write_ndjson(cp, [dict(id="confirm", kind="text" if r["kind"] != "sc" else "sc_text", text=r["input"])])
        if r["kind"] == "sc":
            # re-run through the original descriptor (the input shown may be truncated)
            orig = [json.loads(l) for l in open(cases_path) if json.loads(l)["id"] == r["id"]]
            write_ndjson(cp, orig)
        ok, op, err = run_batch(ctx, open(cp).readlines(), "confirm%d" % len(seen))
        again = read_ndjson(op)[0] if ok else None
        if ok and not any(s["outcome"] in ("panic", "timeout") for s in again["stages"]):
            ctx.notes.setdefault("unreproduced", []).append(r["input"][:200])
            continue
        ctx.violation("%s in stage %s on input %r: %s" % (m["kind"], st["name"], r["input"][:300], st.get("detail", "")[:200]),
                      dict(property="C10", replay_family="crash", kind=m["kind"], stage=st, case=dict(id="replay", kind="text", text=r["input"]) if r["kind"] != "sc" else orig[0]))
    if ctx.notes.get("unreproduced") and not ctx.violations:
        raise InfraError("crash did not reproduce: %s" % ctx.notes["unreproduced"][:1])
    ctx.notes.setdefault("sources", {})[tag] = dict(inputs=len(results), reached_analysis_or_lazy_queries=deep, rejected=len(val["mismatches"]))
    return results


def check_c10(ctx):
    quick = ctx.tier == "quick"
    ctx.build_vh()
    # the input model (Frontend.tla): all token strings up to a length over a 54-token alphabet; single edits of seed
    # programs; line corruptions of seed fact files
    for tag, cfg in (("tokens", "MC_Frontend_tokens.cfg" if quick else "MC_Frontend_tokens3.cfg"), ("edits", "MC_Frontend_edits.cfg"), ("sc", "MC_Frontend_sc.cfg")):
        p = os.path.join(ctx.work, "fe_%s.ndjson" % tag)
        g = ctx.gen_cases("MC_Frontend", cfg, p, workers=8, idprefix=tag + "-")
        ctx.notes.setdefault("generators", {})[tag] = g["cases"]
        res = process(ctx, p, tag)
        for r in list(res.values())[:2]:
            ctx.add_sample(dict(kind=r["kind"], input=r["input"][:200], stages=[(s["name"], s["outcome"]) for s in r["stages"]]))
    # parseable but ill-formed programs: declarations (descriptor lists and bound rows from well- and ill-formed pieces x one use
    # of the declared predicate, DeclGen.tla), programs with wrong-arity constructor applications in heads and senseless
    # transforms (VocabBad), and every clause shape of the C04 family (unsafe ones included)
    for tag, module, cfg, sample in (("decl", "DeclGen", "DeclGen.cfg", 12000 if quick else None), ("bad", "MC_GenBad", "MC_GenBad.cfg", 8000 if quick else None), ("bad3", "MC_GenBad", "MC_GenBad3.cfg", None),
                                     ("shapes", "MC_GenC04", "MC_GenC04_two.cfg", 6000 if quick else None)):
        allp = os.path.join(ctx.work, "fe_%s_all.ndjson" % tag)
        g = ctx.gen_cases(module, cfg, allp, workers=8, idprefix=tag + "-")
        p = os.path.join(ctx.work, "fe_%s.ndjson" % tag)
        n = evalfam.sample_file(allp, p, sample, random.Random(ctx.seed))
        ctx.notes.setdefault("generators", {})[tag] = dict(generated=g["cases"], executed=n)
        res = process(ctx, p, tag)
        for r in list(res.values())[:1]:
            ctx.add_sample(dict(kind=r["kind"], input=r["input"][:200], stages=[(s["name"], s["outcome"]) for s in r["stages"]]))
    # temporal programs: the overlap family of MC_TemporalGen (one atom stated over several overlapping / nested / adjacent
    # intervals + one rule), every order of the stated facts when there are <= 4 of them
    tcp = os.path.join(ctx.work, "fe_tcases.ndjson")
    g = ctx.gen_cases("MC_TemporalGen", "MC_TemporalGen_overlap_sim.cfg", tcp, simulate=dict(num=400 if quick else 4000, depth=10), idprefix="tp-")
    p = os.path.join(ctx.work, "fe_temporal.ndjson")
    ctx.run_vh(["ttext", "--in", tcp, "--out", p])
    ctx.notes.setdefault("generators", {})["temporal"] = dict(cases=g["cases"], texts=sum(1 for _ in open(p)))
    res = process(ctx, p, "temporal")
    for r in list(res.values())[:1]:
        ctx.add_sample(dict(kind=r["kind"], input=r["input"][:300], stages=[(s["name"], s["outcome"]) for s in r["stages"]]))
    ctx.exhaustive = not quick
    ctx.assumptions += ["bounded-exhaustive over a symbolic token alphabet and single edits, not coverage-guided byte fuzzing: inputs whose trigger needs a long specific byte pattern are out of reach",
                        "every stage runs under recover() with a 20 s deadline; batches run in child processes with a 6 GB address-space limit; a batch that dies is bisected to the single input"]
    return ctx.finish("exploration",
                      "inputs generated by TLC from Frontend.tla: all token strings of length <= 2 (quick) / 3 (thorough) over 58 tokens; delete/duplicate/swap/truncate/replace (28 replacement tokens) at 30 positions of 35 seed programs; 13 kinds of line corruption at 30 positions of 14 seed fact files; declarations assembled from 21 descriptor lists x 33 bound types x 9 uses x arity 0-2 (DeclGen.tla); one-rule programs with wrong-arity constructor heads and 15 ill-formed transforms, and every body of <= 3 literals incl. negated built-ins (VocabBad); the C04 clause shapes; temporal programs of the overlap family in every order of their stated facts. "
                      "Each input goes through parse.Unit/Clause/Term/BaseTerm/Atom/LiteralOrFormula/PredicateName, AnalyzeAndCheckBounds, EvalProgram under a fact limit, or ReadInto and the lazy store; non-trivial = input that got past the parser (or the .sc header); distinct by input text")


def replay(ctx, obj):
    ctx.build_vh()
    cp = os.path.join(ctx.work, "replay.ndjson")
    write_ndjson(cp, [obj["case"]])
    process(ctx, cp, "replay")
    ctx.nontrivial.update(["r1", "r2"])
    ctx.add_sample(obj["case"])
    return ctx.finish("exploration", "replay of one input")
