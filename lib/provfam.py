"""C15: every explanation is a checkable derivation and every derived fact has one."""
import json
import os
import random

from vlib import InfraError, write_ndjson, read_ndjson, load_known_findings
import evalfam


def attribute(r, g, kind, open_ids):
    """Open known finding F37: a proof rebuilt from a recording knows nothing about the facts the program states.
    Specific test: the goal is one of the stated base facts, its predicate also has rules, the mode is 'recorded',
    and the verdict is the missing complete proof."""
    if "F37" in open_ids and kind == "NO_COMPLETE_PROOF" and g and g["mode"] == "recorded" and g["proofs"]:
        stated = {json.dumps(f, sort_keys=True) for f in r["edb"] if any(rl["h"]["p"] == f["p"] for rl in r["rules"])}

        def nodes(n):
            out = [n]
            for p in n["premises"]:
                out += nodes(p)
            return out
        # some node of a returned proof expands a stated base fact of a predicate with rules through a rule
        bad = [n for pr in g["proofs"] for n in nodes(pr) if n["kind"] == "derived" and json.dumps(n["fact"], sort_keys=True) in stated]
        if bad:
            return ("F37 BuildFromRecording has no record of the facts a program states: a base fact of a predicate that also has rules, re-derived only from itself, "
                    "gets a Partial proof, e.g. %s under goal %s in %s" % (evalfam.fact_str(bad[0]["fact"]), evalfam.fact_str(g["goal"]), r["text"].replace("\n", " ")))
    return None


def run_cases(ctx, cases_path, tag):
    rp = os.path.join(ctx.work, "res_%s.ndjson" % tag)
    ctx.run_vh(["prov", "--in", cases_path, "--out", rp])
    val = ctx.validate(rp, module="Trace_Provenance", shards=min(16, max(1, os.path.getsize(rp) // 3000000)))
    results = {r["id"]: r for r in read_ndjson(rp)}
    cls = {}
    for r in results.values():
        cls[r["outcome"]] = cls.get(r["outcome"], 0) + 1
        ctx.evaluations += len(r["goals"])
        if r["outcome"] == "ok" and any(g["proofs"] and g["proofs"][0]["kind"] == "derived" for g in r["goals"]):
            ctx.nontrivial.add(r["text"])
    seen = set()
    open_ids = {k["id"] for k in load_known_findings() if k.get("status") == "open"}
    for m in val["mismatches"]:
        r = results[m["id"]]
        gi = m["variant"]
        g = r["goals"][gi] if 0 <= gi < len(r["goals"]) else None
        kf = attribute(r, g, m["kind"], open_ids)
        if kf:
            ctx.known_finding(kf)
            continue
        key = (m["kind"], r["text"])
        if key in seen or len(seen) > 8:
            continue
        seen.add(key)
        cp = os.path.join(ctx.work, "confirm_%d.ndjson" % len(os.listdir(ctx.work)))
        write_ndjson(cp, [dict(id="confirm", rules=r["rules"], edb=r["edb"])])
        rp2 = cp.replace(".ndjson", ".res.ndjson")
        ctx.run_vh(["prov", "--in", cp, "--out", rp2])
        val2 = ctx.validate(rp2, module="Trace_Provenance", shards=1)
        ms2 = [x for x in val2["mismatches"] if x["kind"] == m["kind"]]
        if not ms2:
            ctx.notes.setdefault("unreproduced", []).append(dict(kind=m["kind"], text=r["text"]))
            continue
        r2 = read_ndjson(rp2)[0]
        g2 = r2["goals"][ms2[0]["variant"]] if ms2[0]["variant"] < len(r2["goals"]) else None
        ctx.violation("%s: %s | goal %s mode=%s maxproofs=%s err=%s proofs=%d" % (
            m["kind"], r["text"].replace("\n", " "), evalfam.fact_str(g2["goal"]) if g2 else "-", g2["mode"] if g2 else "-", g2["maxproofs"] if g2 else "-",
            g2["err"] if g2 else "-", len(g2["proofs"]) if g2 else 0),
            dict(property="C15", replay_family="prov", kind=m["kind"], case=dict(id="replay", rules=r["rules"], edb=r["edb"]), program_text=r["text"], observed=g2))
    if ctx.notes.get("unreproduced") and not ctx.violations:
        raise InfraError("provenance mismatch did not reproduce: %s" % ctx.notes["unreproduced"][:1])
    ctx.notes.setdefault("sources", {})[tag] = dict(cases=len(results), outcomes=cls, rejected=len(val["mismatches"]))
    return results


def check_c15(ctx):
    rnd = random.Random(ctx.seed)
    quick = ctx.tier == "quick"
    ctx.build_vh()
    # the proof checker itself is part of the specification; T15 = Scheduler/SemiNaive theorems guarantee that every
    # model fact has a rule instance whose body holds in the model (what ValidProof demands of a derived node)
    evalfam.model_check(ctx, "MC_SemiNaive", "MC_SemiNaive_small.cfg")
    run_cases(ctx, evalfam.REGRESS, "regress")
    # every program of <= 2 safe rules over the provenance vocabulary (E1 + binding equalities), every stored fact as goal
    allp = os.path.join(ctx.work, "prov_all.ndjson")
    g = ctx.gen_cases("MC_GenProv", "MC_GenProv.cfg", allp, workers=8, idprefix="pv-")
    runp = os.path.join(ctx.work, "prov.ndjson")
    n = evalfam.sample_file(allp, runp, 4000 if quick else 60000, rnd)
    ctx.notes["generators"] = dict(two_rule_programs=g["cases"], executed=n)
    run_cases(ctx, runp, "two")
    # simulated programs of up to 5 rules incl. the mutually recursive cycle-cut family
    simp = os.path.join(ctx.work, "prov_sim.ndjson")
    g = ctx.gen_cases("MC_GenProv", "MC_GenProv_sim.cfg", simp, simulate=dict(num=3000 if quick else 40000, depth=8), idprefix="pvsim-")
    res = run_cases(ctx, simp, "sim")
    # recorded mode over programs with transforms (validity of rule nodes, recorder does not change the result)
    aggp = os.path.join(ctx.work, "prov_agg.ndjson")
    g = ctx.gen_cases("MC_GenAgg", "MC_GenAgg_sim.cfg", aggp, simulate=dict(num=600 if quick else 8000, depth=8), idprefix="pvagg-")
    run_cases(ctx, aggp, "agg")
    for r in list(res.values())[:40]:
        if r["outcome"] == "ok" and r["goals"]:
            gl = [x for x in r["goals"] if x["proofs"] and x["proofs"][0]["kind"] == "derived"]
            if gl:
                ctx.add_sample(dict(program=r["text"], goal=evalfam.fact_str(gl[0]["goal"]), mode=gl[0]["mode"], proof=gl[0]["proofs"][0]), cap=3)
    ctx.assumptions += ["rule nodes are checked against the rules as analysis left them (premise order after reordering), leaves against the evaluated store",
                        "existence of a complete proof is demanded on transform-free programs without built-in predicates, of provenance.Explain and of BuildFromRecording alike",
                        "let/do nodes of recorded proofs are not judged (only that the recorder does not change the result)"]
    return ctx.finish("model_checking",
                      "transform-free programs (recursive, mutually recursive, negation, inequalities, binding equalities) generated by TLC; every fact of the evaluated store explained post hoc and from a recording with proof limits 1 and 3; "
                      "every proof tree validated by TLC (rule head/premises under the reported bindings, leaves in/absent from the store, no fact its own ancestor, ids by content); non-trivial = program with at least one derived proof; distinct by program text")


def replay(ctx, obj):
    ctx.build_vh()
    cp = os.path.join(ctx.work, "replay.ndjson")
    write_ndjson(cp, [obj["case"]])
    run_cases(ctx, cp, "replay")
    ctx.nontrivial.update(["r1", "r2"])
    ctx.add_sample(obj.get("program_text", ""))
    return ctx.finish("model_checking", "replay of one provenance case")
