"""C18: the concurrent store is linearizable; parallel evaluations do not interfere."""
import json
import os
import random
import re

from vlib import InfraError, write_ndjson, read_ndjson
import evalfam


def run_race(ctx, binary, args, tag):
    """Run the race-detector build; a DATA RACE report is a violation whose replay is the report."""
    p = ctx.run_vh(args, binary=binary, check=False, env={"GORACE": "halt_on_error=0 exitcode=66"})
    text = p.stderr or ""
    if "DATA RACE" in text:
        first = text[text.index("WARNING: DATA RACE"):][:6000]
        ctx.violation("data race reported by the Go race detector during %s" % tag,
                      dict(property="C18", replay_family="race", command=[os.path.basename(binary)] + args, report=first))
        return False
    if p.returncode != 0:
        raise InfraError("race build failed during %s (exit %d): %s" % (tag, p.returncode, text[-2000:]))
    return True


def lin_validate(ctx, trace_path, tag):
    """TLC searches linearization points (depth-first queue). Returns (accepted, furthest reset line)."""
    res = ctx.tlc("Trace_Concurrent", "Trace_Concurrent.cfg", workers=1, env={"TRACE": trace_path}, deque=True,
                  outname="lin_%s.out" % tag, timeout=1800)
    reached = 0
    consumed = False
    with open(res["out"], errors="replace") as f:
        for line in f:
            m = re.match(r'<<"REACHED", (\d+)>>', line)
            if m:
                reached = max(reached, int(m[1]))
            if line.startswith('<<"CONSUMED"'):
                consumed = True
    return consumed, reached


def split_histories(path):
    hs, cur = [], []
    for line in open(path):
        if line.startswith('{"base":') or '"ev":"reset"' in line[:200] and cur and json.loads(line).get("ev") == "reset":
            if cur:
                hs.append(cur)
            cur = []
        cur.append(line)
    if cur:
        hs.append(cur)
    return hs


def check_histories(ctx, trace_path, tag):
    """Validate all histories; on rejection isolate the first unexplained one, report it and go on."""
    hs = split_histories(trace_path)
    pending = hs
    rounds = 0
    while pending and rounds < 6:
        rounds += 1
        p = os.path.join(ctx.work, "%s_round%d.ndjson" % (tag, rounds))
        with open(p, "w") as o:
            for h in pending:
                o.writelines(h)
        ok, reached = lin_validate(ctx, p, "%s_%d" % (tag, rounds))
        if ok:
            break
        # the history starting at the furthest reached reset could not be explained
        lineno, idx = 1, None
        for i, h in enumerate(pending):
            if lineno == max(reached, 1):
                idx = i
                break
            lineno += len(h)
        if idx is None:
            raise InfraError("could not localise the rejected history (reached=%d)" % reached)
        bad = pending[idx]
        single = os.path.join(ctx.work, "%s_bad%d.ndjson" % (tag, rounds))
        with open(single, "w") as o:
            o.writelines(bad)
        ok1, _ = lin_validate(ctx, single, "%s_bad%d" % (tag, rounds))
        if ok1:
            raise InfraError("history rejected in context but accepted alone: %s" % single)
        ctx.violation("non-linearizable history of the concurrent store (%d events): no placement of linearization points explains the replies" % (len(bad) - 1),
                      dict(property="C18", replay_family="lin", history=[json.loads(x) for x in bad]))
        pending = pending[:idx] + pending[idx + 1:]
    ctx.traces += len(hs)
    return hs


def overlap_stats(hs):
    calls = over = 0
    for h in hs:
        open_calls = set()
        for line in h[1:]:
            e = json.loads(line)
            if e["ev"] == "call":
                calls += 1
                if open_calls:
                    over += 1
                open_calls.add(e["p"])
            else:
                open_calls.discard(e["p"])
    return dict(calls=calls, calls_overlapping_another=over)


def check_c18(ctx):
    quick = ctx.tier == "quick"
    ctx.build_vh()
    race = ctx.build_vh(race=True)
    # T18 on the specification: the lock protocol gives every operation an atomic view (linearization point =
    # lock acquisition) under every interleaving of 3 goroutines; an operation that skips the lock is rejected
    evalfam.model_check(ctx, "MC_ConcurrentStore", "MC_ConcurrentStore.cfg", workers=8)
    if not quick:
        evalfam.model_check(ctx, "MC_ConcurrentStore", "MC_ConcurrentStore_mutSkip.cfg", workers=4, expect_violation="T18")
    # (a) recorded histories, under the race detector, validated for linearizability
    all_hs = []
    for i, (procs, ops) in enumerate(((4, 6), (6, 8), (3, 12)) if quick else ((4, 6), (6, 8), (3, 12), (8, 6), (5, 10), (2, 25))):
        tp = os.path.join(ctx.work, "conc_%d.ndjson" % i)
        run_race(ctx, race, ["conc-record", "--seed", str(ctx.seed + i), "--n", str(250 if quick else 1500), "--procs", str(procs), "--ops", str(ops), "--out", tp], "concurrent store stress")
        if os.path.exists(tp):
            all_hs += check_histories(ctx, tp, "conc_%d" % i)
    st = overlap_stats(all_hs)
    ctx.notes["histories"] = dict(count=len(all_hs), **st)
    ctx.evaluations += st["calls"]
    for h in all_hs[:200]:
        ctx.nontrivial.add("".join(h)[:400])
    if all_hs:
        ctx.add_sample([json.loads(x) for x in all_hs[0][:12]])
    # self-test of the binding: a fixed sequential history (one goroutine: add, contains, remove, contains) is accepted,
    # and the same history with one reply flipped is rejected. (A flipped reply inside a recorded concurrent history may
    # still be linearizable, so the self-test does not use those.)
    if not ctx.violations:
        atom = {"p": "p", "a": [["n", 1]]}
        def hist(replies):
            ev = [dict(ev="reset", id="selftest", procs=["g0"], base="simple")]
            for (k, r) in zip(("add", "has", "rm", "has"), replies):
                ev.append(dict(ev="call", p="g0", op=dict(k=k, a=atom)))
                ev.append(dict(ev="ret", p="g0", r=r))
            return [json.dumps(e) + "\n" for e in ev]
        for name, replies, want in (("selftest_ok", (True, True, True, False), True), ("selftest_flipped", (True, False, True, False), False)):
            sp = os.path.join(ctx.work, name + ".ndjson")
            with open(sp, "w") as o:
                o.writelines(hist(replies))
            ok, _ = lin_validate(ctx, sp, name)
            if ok != want:
                raise InfraError("self-test failed: the %s sequential history was %s by Trace_Concurrent" % (
                    "correct" if want else "corrupted", "accepted" if ok else "rejected"))
        ctx.notes["selftest_corrupted_reply_rejected"] = True
    # (b) parallel parse -> analyse -> evaluate pipelines on disjoint stores under the race detector;
    #     every pipeline's result must equal the TLC model (hence the result of running alone)
    kinds = {"MODEL_MISMATCH", "EVAL_FAILURE", "INCONSISTENT"}
    for tag, module, cfg, fam, num in (("e2sim", "MC_GenE2", "MC_GenE2_sim.cfg", None, 1500 if quick else 12000),
                                       ("aggsim", "MC_GenAgg", "MC_GenAgg_sim.cfg", "agg", 600 if quick else 5000)):
        cp = os.path.join(ctx.work, tag + ".ndjson")
        ctx.gen_cases(module, cfg, cp, simulate=dict(num=num, depth=8), idprefix=tag + "-", extra_fields=dict(family=fam) if fam else None)
        rp = os.path.join(ctx.work, "res_%s.ndjson" % tag)
        args = ["eval", "--in", cp, "--out", rp, "--mode", "all", "--workers", "16", "--parsemix"] + (["--family", fam] if fam else [])
        if run_race(ctx, race, args, "parallel pipelines (%s)" % tag):
            val = ctx.validate(rp)
            results = {r["id"]: r for r in read_ndjson(rp)}
            for r in results.values():
                ctx.evaluations += r.get("runs", 0)
            evalfam.judge_family(ctx, results, val, kinds, "all", known_matchers=evalfam.open_matchers(ctx))
            evalfam.count_nontrivial(ctx, results, val, evalfam.derives)
    ctx.assumptions += ["runtime schedules are sampled (stress under the race detector), not enumerated; the lock protocol itself is exhaustively checked on the specification",
                        "call/return stamps come from one atomic counter taken before the call and after the return, so stamp order implies real-time precedence",
                        "the race detector reports unsynchronised conflicting accesses it observes; absence of a report is not a proof of absence"]
    return ctx.finish("model_checking",
                      "concurrent histories (2-8 goroutines x 6-25 operations on 4 atoms: add, remove, contains, pattern query, merge, list predicates, fact count) recorded from the real ConcurrentFactStore under -race and checked for linearizability by TLC "
                      "(silent linearization steps, depth-first search); parallel evaluation pipelines under -race validated against the TLC model; non-trivial/distinct = distinct recorded histories and derived-fact programs")


def replay(ctx, obj):
    ctx.build_vh()
    if obj.get("replay_family") == "lin":
        sp = os.path.join(ctx.work, "replay.ndjson")
        with open(sp, "w") as o:
            for e in obj["history"]:
                o.write(json.dumps(e) + "\n")
        ok, _ = lin_validate(ctx, sp, "replay")
        if not ok:
            ctx.violation("recorded history is not linearizable", obj)
    else:
        race = ctx.build_vh(race=True)
        run_race(ctx, race, obj["command"][1:], "replay")
    ctx.evaluations += 1
    ctx.nontrivial.update(["replay", "replay2"])
    ctx.add_sample("replay")
    return ctx.finish("model_checking", "replay")
