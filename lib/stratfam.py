"""C03: stratification respects every dependency or reports failure."""
import itertools
import json
import os
import random

from vlib import InfraError, write_ndjson, read_ndjson
import evalfam


def graphs(nodes, labels):
    k = len(nodes)
    for combo in itertools.product(labels, repeat=k * k):
        yield [list(combo[i * k:(i + 1) * k]) for i in range(k)]


def random_graph(rnd, nodes, labels, density):
    k = len(nodes)
    return [[(rnd.choice(labels[1:]) if rnd.random() < density else "none") for _ in range(k)] for _ in range(k)]


def confirm(ctx, case, kind):
    cp = os.path.join(ctx.work, "confirm_%d.ndjson" % len(os.listdir(ctx.work)))
    write_ndjson(cp, [case])
    rp = cp.replace(".ndjson", ".res.ndjson")
    ctx.run_vh(["strat", "--in", cp, "--out", rp, "--repeat", "200"])
    val = ctx.validate(rp, module="Trace_Strat", shards=1)
    ms = [m for m in val["mismatches"] if m["kind"] == kind]
    return ms, read_ndjson(rp)[0]


def check_c03(ctx):
    rnd = random.Random(ctx.seed)
    quick = ctx.tier == "quick"
    ctx.build_vh()
    # T03 on the specification: Kosaraju + negative-edge test + sortResult under EVERY map iteration order,
    # for all 19 683 labelled graphs on 3 predicates; the edge-dropping mutant must be rejected
    evalfam.model_check(ctx, "MC_Stratifier", "MC_Stratifier.cfg", workers=14)
    if not quick:
        evalfam.model_check(ctx, "MC_Stratifier", "MC_Stratifier_mutDrop.cfg", expect_violation="T03")
    cases = []
    n3 = ["pa", "pb", "pc"]
    L3 = ("none", "pos", "neg")
    # styles stated / statedfirst / aggstated: every node predicate also has a unit clause, after resp. before its rules
    for style in ("plain", "agg", "temporal", "stated", "aggstated", "temporalagg") + (() if quick else ("statedfirst",)):
        labels = ("none", "pos") if style == "temporal" else L3
        for e in graphs(n3, labels):
            if (style.startswith("agg") or style == "temporalagg") and not any(x == "neg" for row in e for x in row):
                continue
            cases.append(dict(nodes=n3, edges=e, style=style))
    exhaustive3 = len(cases)
    for k, nodes in ((4, ["pa", "pb", "pc", "pd"]), (5, ["pa", "pb", "pc", "pd", "pe"])):
        for _ in range(4000 if quick else 60000):
            style = rnd.choice(("plain", "plain", "agg", "temporal", "stated", "aggstated", "temporalagg"))
            labels = ("none", "pos") if style == "temporal" else L3
            cases.append(dict(nodes=nodes, edges=random_graph(rnd, nodes, labels, rnd.choice((0.15, 0.3, 0.5))), style=style))
    for i, c in enumerate(cases):
        c["id"] = i
    cp = os.path.join(ctx.work, "graphs.ndjson")
    write_ndjson(cp, cases)
    rp = os.path.join(ctx.work, "graphs.res.ndjson")
    repeat = 8 if quick else 24
    ctx.run_vh(["strat", "--in", cp, "--out", rp, "--repeat", str(repeat)])
    val = ctx.validate(rp, module="Trace_Strat")
    results = {r["id"]: r for r in read_ndjson(rp)}
    orders = 0
    for r in results.values():
        ctx.evaluations += r["runs"]
        if len(r["results"]) > 1:
            orders += 1
        if val["classes"].get(r["id"]) == "stratifiable" and any(x["stage"] == "stratify" for x in r["results"]):
            ctx.nontrivial.add(json.dumps([r["style"], r["nodes"], r["edges"]]))
    ctx.notes["graphs"] = dict(all_3_node_graphs_in_all_styles=exhaustive3, total=len(cases), repeat=repeat,
                               graphs_with_more_than_one_distinct_valid_answer=orders,
                               classes={k: sum(1 for v in val["classes"].values() if v == k) for k in set(val["classes"].values())})
    for cid in (0, exhaustive3 - 5, len(cases) - 1):
        r = results[cid]
        ctx.add_sample(dict(style=r["style"], edges=r["edges"], program=r["text"], results=r["results"]))
    seen = set()
    for m in val["mismatches"]:
        r = results[m["id"]]
        key = (m["kind"], r["style"], json.dumps(r["edges"]))
        if key in seen or len(seen) > 10:
            continue
        seen.add(key)
        ms, rr = confirm(ctx, dict(id=r["id"], nodes=r["nodes"], edges=r["edges"], style=r["style"]), m["kind"])
        if not ms:
            ctx.notes.setdefault("unreproduced", []).append(dict(kind=m["kind"], edges=r["edges"], style=r["style"]))
            continue
        ctx.violation("%s: style=%s edges=%s -> %s | %s" % (m["kind"], r["style"], r["edges"], rr["results"], r["text"].replace("\n", " ")),
                      dict(property="C03", replay_family="strat", kind=m["kind"], case=dict(id=r["id"], nodes=r["nodes"], edges=r["edges"], style=r["style"]),
                           program_text=r["text"], observed=rr["results"]))
    if ctx.notes.get("unreproduced") and not ctx.violations:
        raise InfraError("stratification mismatch did not reproduce in 200 runs: %s" % ctx.notes["unreproduced"][:2])
    # evaluation level: EvalProgram returns the stratification error exactly for negative cycles
    evalfam.gen_and_run(ctx, "e1", "MC_GenE1", "MC_GenE1_safe.cfg", {"ACCEPTED_UNSTRATIFIABLE", "SPURIOUS_STRAT_ERR"}, mode="one",
                        sample=8000 if quick else 60000, rnd=rnd, nontrivial=lambda r, cl: cl in ("model", "unstrat"))
    ctx.exhaustive = True
    ctx.assumptions += ["graphs are realised as programs with one rule per edge (plain negation, aggregation as the negative edge, temporal body literals); "
                        "a program rejected before stratification (e.g. mutual recursion through temporal predicates) is not judged",
                        "Go randomises every map iteration, so repeated calls sample the iteration orders that Stratifier.tla enumerates exhaustively"]
    return ctx.finish("model_checking",
                      "all 3^9 labelled graphs on 3 predicates in 5 (quick) / 6 syntactic styles (plain negation, aggregation as the negative edge, temporal literals; node predicates with stated facts before / after their rules) + random graphs on 4 and 5 predicates, analysis.Stratify called repeatedly; every distinct (layers, map, error) answer judged by TLC "
                      "against StratMeaning (partition, order, strictness on negative edges, SCC-mates together, failure iff negative cycle); non-trivial = stratifiable graph answered by Stratify; distinct by (style, graph)")


def replay(ctx, obj):
    ctx.build_vh()
    ms, rr = confirm(ctx, obj["case"], obj["kind"])
    if ms:
        ctx.violation("%s reproduced" % obj["kind"], dict(obj, observed=rr["results"]))
    ctx.evaluations += rr["runs"]
    ctx.nontrivial.update(["replay", "replay2"])
    ctx.add_sample(obj.get("program_text", ""))
    return ctx.finish("model_checking", "replay of one stored graph")
