"""C14: temporal operators and annotations mean what the documentation says."""
import json
import os
import random

from vlib import InfraError, write_ndjson, read_ndjson
import evalfam


def run_cases(ctx, cases_path, tag, repeat, perms=0, prop="C14", coalesce=False):
    rp = os.path.join(ctx.work, "res_%s.ndjson" % tag)
    co = ["--coalesce"] if coalesce else []
    ctx.run_vh(["teval", "--in", cases_path, "--out", rp, "--repeat", str(repeat), "--perms", str(perms)] + co)
    val = ctx.validate(rp, module="Trace_TemporalEval")
    results = {r["id"]: r for r in read_ndjson(rp)}
    for r in results.values():
        ctx.evaluations += r["runs"]
        if any(v["outcome"] == "ok" and (len(v["got"]) > 0 or len(v["tgot"]) > len(r["tfacts"])) for v in r["variants"]):
            ctx.nontrivial.add(r["text"] + str(r["now"]))
    seen = set()
    for m in val["mismatches"]:
        r = results[m["id"]]
        key = (m["kind"], r["text"], r["now"])
        if key in seen or len(seen) > 8:
            continue
        seen.add(key)
        cp = os.path.join(ctx.work, "confirm_%d.ndjson" % len(os.listdir(ctx.work)))
        write_ndjson(cp, [dict(id="confirm", tfacts=r["tfacts"], now=r["now"], rules=r["rules"], overlap=r.get("overlap", False))])
        rp2 = cp.replace(".ndjson", ".res.ndjson")
        ctx.run_vh(["teval", "--in", cp, "--out", rp2, "--repeat", "20", "--perms", str(perms)] + co)
        val2 = ctx.validate(rp2, module="Trace_TemporalEval", shards=1)
        ms2 = [x for x in val2["mismatches"] if x["kind"] == m["kind"]]
        if not ms2:
            ctx.notes.setdefault("unreproduced", []).append(dict(kind=m["kind"], text=r["text"], now=r["now"]))
            continue
        r2 = read_ndjson(rp2)[0]
        v = r2["variants"][ms2[0]["variant"]]
        if m["kind"] == "INCONSISTENT":
            v0 = r2["variants"][0]
            expected = "the same as under %s: facts=%s temporal=%s" % (v0["cfgs"][:2], evalfam.facts_str(v0["got"]), [(evalfam.fact_str(x[0]), x[1]) for x in v0["tgot"]])
        else:
            expected = json.dumps(ms2[0]["expected"])[:400]
        ctx.violation("%s: now=%d | %s | under %s facts=%s temporal=%s | expected %s" % (
            m["kind"], r["now"], r["text"].replace("\n", " "), v["cfgs"][:2], evalfam.facts_str(v["got"]), [(evalfam.fact_str(x[0]), x[1]) for x in v["tgot"]], expected),
            dict(property=prop, replay_family="teval", kind=m["kind"], perms=perms, coalesce=coalesce, case=dict(id="replay", tfacts=r["tfacts"], now=r["now"], rules=r["rules"], overlap=r.get("overlap", False)),
                 program_text=r["text"], observed=v, expected=ms2[0]["expected"]))
    if ctx.notes.get("unreproduced") and not ctx.violations:
        raise InfraError("temporal evaluation mismatch did not reproduce: %s" % ctx.notes["unreproduced"][:1])
    ctx.notes.setdefault("sources", {})[tag] = dict(cases=len(results), rejected=len(val["mismatches"]))
    return results


def check_c14(ctx):
    rnd = random.Random(ctx.seed)
    quick = ctx.tier == "quick"
    ctx.build_vh()
    # T14 on the specification: converse pairs / symmetry of the interval relations on all pairs of closed intervals,
    # box => diamond, window monotonicity and the past/future mirror on all small coalesced databases
    evalfam.model_check(ctx, "MC_TemporalSem", "MC_TemporalSem.cfg" if quick else "MC_TemporalSem_full.cfg", workers=8)
    # the nine interval relations on all 100 ordered pairs of closed intervals over 0..3, through the engine
    evalfam.run_source(ctx, "intervals", os.path.join(evalfam.ROOT, "cases", "intervals.ndjson"), {"MODEL_MISMATCH", "EVAL_FAILURE"}, mode="all", nontrivial=evalfam.derives)
    # every single-fact temporal database (13 stored intervals incl. half-unbounded / eternal) x every evaluation time 0..5 x
    # every one-rule operator program (4 operators x 10 windows 0<=a<=b<=3), annotation / head-annotation programs and two-rule chains
    one = os.path.join(ctx.work, "t_one.ndjson")
    g = ctx.gen_cases("MC_TemporalGen", "MC_TemporalGen.cfg", one, workers=8, idprefix="t1-")
    ctx.notes["generators"] = dict(single_fact_programs=g["cases"])
    res = run_cases(ctx, one, "one", 1 if quick else 3)
    # coalesced databases of up to 4 facts over two atoms, random program / evaluation time
    sim = os.path.join(ctx.work, "t_sim.ndjson")
    g = ctx.gen_cases("MC_TemporalGen", "MC_TemporalGen_sim.cfg", sim, simulate=dict(num=4000 if quick else 60000, depth=7), idprefix="tsim-")
    ctx.notes["generators"]["simulated_programs"] = g["cases"]
    res2 = run_cases(ctx, sim, "sim", 2 if quick else 4)
    # joins: a second temporal literal whose annotation shares variables with the first (bound variables must equal the
    # stored bounds), or that carries an operator; coalesced databases over three atoms
    jn = os.path.join(ctx.work, "t_join.ndjson")
    g = ctx.gen_cases("MC_TemporalGen", "MC_TemporalGen_join_sim.cfg", jn, simulate=dict(num=3000 if quick else 40000, depth=9), idprefix="tj-")
    ctx.notes["generators"]["join_programs"] = g["cases"]
    run_cases(ctx, jn, "join", 1 if quick else 3)
    # let-transforms on temporal rules (computed head column; head annotation none / now / constant / variables; feeding an operator)
    lt = os.path.join(ctx.work, "t_let.ndjson")
    g = ctx.gen_cases("MC_TemporalGen", "MC_TemporalGen_let_sim.cfg", lt, simulate=dict(num=1500 if quick else 20000, depth=7), idprefix="tl-")
    ctx.notes["generators"]["let_programs"] = g["cases"]
    run_cases(ctx, lt, "let", 1 if quick else 3)
    # coalesce-first: overlapping, nested, touching and half-unbounded intervals of two atoms go into the temporal store,
    # TemporalStore.Coalesce runs for every predicate, then the rules are evaluated; expected = the operators' meaning over
    # TemporalStore!CoalesceDB(facts, 0) (T13c: the constructive coalescing meets CoalesceOK), in 2 + k insertion orders
    evalfam.model_check(ctx, "MC_Coalesce", "MC_Coalesce.cfg", workers=2)
    co = os.path.join(ctx.work, "t_coalesce.ndjson")
    g = ctx.gen_cases("MC_TemporalGen", "MC_TemporalGen_overlap_sim.cfg", co, simulate=dict(num=2500 if quick else 30000, depth=10), idprefix="tco-")
    ctx.notes["generators"]["coalesce_first_programs"] = g["cases"]
    run_cases(ctx, co, "coalesced", 1 if quick else 2, perms=3 if quick else 8, coalesce=True)
    for r in list(res2.values())[:3]:
        ctx.add_sample(dict(program=r["text"], now=r["now"], facts=[evalfam.fact_str(a) for a in r["variants"][0]["got"]],
                            temporal=[(evalfam.fact_str(x[0]), x[1]) for x in r["variants"][0]["tgot"]]))
    ctx.exhaustive = True
    ctx.assumptions += ["one timeline unit is one second from 2024-01-01T00:00:00Z; base facts are coalesced (the property's premise) either by construction or by TemporalStore.Coalesce before the rules run; windows satisfy a <= b",
                        "each program is run as written and with reversed clause/fact order on rotating store kinds, with and without deterministic order (C05 for temporal programs)",
                        "constant annotations in rule bodies have no documented meaning and are not generated; an annotation variable that already has a value is read as an equality with the stored bound (unification)"]
    return ctx.finish("model_checking",
                      "temporal programs generated by TLC (TemporalGen): base facts on a 0..5 timeline, evaluation times 0..5, windows 0<=a<=b<=3 incl. zero-length and end-touching, the four operators, interval variable binding, "
                      "the @[T] point shorthand, head annotations (variables, now, constants), two-rule chains, two-literal joins on interval variables, let-transforms on temporal rules, and overlapping / nested / touching base facts coalesced through the store's API before evaluation; regular and temporal store after EvalProgram compared with TemporalSem!TModel by TLC; "
                      "non-trivial = derives at least one fact; distinct by (program text, evaluation time)")


def replay(ctx, obj):
    ctx.build_vh()
    cp = os.path.join(ctx.work, "replay.ndjson")
    write_ndjson(cp, [obj["case"]])
    run_cases(ctx, cp, "replay", 10, perms=obj.get("perms", 0), prop=ctx.prop, coalesce=obj.get("coalesce", False))
    ctx.nontrivial.update(["r1", "r2"])
    ctx.add_sample(obj.get("program_text", ""))
    return ctx.finish("model_checking", "replay of one temporal program")
