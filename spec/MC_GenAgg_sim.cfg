SPECIFICATION Spec
CONSTANTS
  Heads = {}
  BodyLits = {}
  MaxBody = 1
  Transforms = {}
  MaxRules = 4
  FixedRules <- TC
  EdbChoices <- AggEdbs
  ExtraRules <- AggExtra
  Randomized = TRUE
  Keep <- KeepAll
INVARIANT Emit
CHECK_DEADLOCK FALSE
