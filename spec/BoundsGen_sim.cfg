INIT Init
NEXT Next
CONSTANT Randomized = TRUE
CONSTANT Family = "single"
INVARIANT Emit
CHECK_DEADLOCK FALSE
