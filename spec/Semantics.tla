----------------------------- MODULE Semantics ------------------------------
(***************************************************************************)
(* Layer 2 - the meaning of Mangle programs (docs/spec_semantics.md,       *)
(* docs/spec_explain_stratified_negation.md, docs/aggregation.md).         *)
(*                                                                         *)
(* Syntax (identical shapes arrive from the Go harness as JSON):           *)
(*   atom    [p |-> "pred", a |-> <<term, ...>>]                           *)
(*   literal <<"pos", atom>>  <<"neg", atom>>  <<"eq", l, r>> <<"ne", l, r>>*)
(*           <<"lt"|"le"|"gt"|"ge", l, r>>   <<"bi", ":match_pair", args>>   *)
(*   clause  [h |-> atom, b |-> <<literal, ...>>, t |-> transform]         *)
(*   transform  <<"none">> | <<"let", <<<<x, term>>, ...>>>>               *)
(*            | <<"do", <<keyvar, ...>>, <<<<x, fn, <<argterms>>>>, ...>>>> *)
(*   fact    atom whose arguments are constants                            *)
(*                                                                         *)
(* This module is deliberately NOT a transcription of the engine: it       *)
(* defines safety through a ready-literal scheduler, the immediate         *)
(* consequence operator, and the stratified model by levels (number of     *)
(* negative/aggregating edges on a dependency path).  The engine's own     *)
(* algorithm (semi-naive rounds over SCC strata) is module SemiNaive.      *)
(***************************************************************************)
EXTENDS Builtins, SequencesExt

---------------------------------------------------------------------------
\* Substitutions: functions from variable names to values.
NoSub == <<>>
Ext(s, x, v) == [y \in (DOMAIN s) \cup {x} |-> IF y = x THEN v ELSE s[y]]

RECURSIVE TermVars(_)
TermVars(t) ==
  IF t[1] = "v" THEN (IF t[2] = "_" THEN {} ELSE {t[2]})
  ELSE IF t[1] = "ap" THEN UNION {TermVars(t[3][i]) : i \in DOMAIN t[3]}
  ELSE {}
SeqVars(q) == UNION {TermVars(q[i]) : i \in DOMAIN q}
AtomVars(a) == SeqVars(a.a)

RECURSIVE EvalTerm(_, _)
\* value of a term under s; ERR if a function fails; <<"unb", x>> if x has no value
EvalTerm(t, s) ==
  IF t[1] = "v" THEN (IF t[2] \in DOMAIN s THEN s[t[2]] ELSE <<"unb", t[2]>>)
  ELSE IF t[1] = "ap" THEN
       LET args == [i \in DOMAIN t[3] |-> EvalTerm(t[3][i], s)] IN
       IF \E i \in DOMAIN args : args[i][1] \in {"unb", "err"} THEN ERR
       ELSE ApplyFn(t[2], args)
  ELSE t

IsVal(v) == v[1] \notin {"unb", "err"}

RECURSIVE MatchFrom(_, _, _, _)
\* the set (empty or singleton) of extensions of s under which args[i..] equal vals[i..]
MatchFrom(args, vals, s, i) ==
  IF i > Len(args) THEN {s}
  ELSE LET a == args[i]
           v == vals[i] IN
       IF a[1] = "v" THEN
            IF a[2] = "_" THEN MatchFrom(args, vals, s, i + 1)
            ELSE IF a[2] \in DOMAIN s
                 THEN (IF s[a[2]] = v THEN MatchFrom(args, vals, s, i + 1) ELSE {})
                 ELSE MatchFrom(args, vals, Ext(s, a[2], v), i + 1)
       ELSE IF a[1] = "ap" THEN
            (IF EvalTerm(a, s) = v THEN MatchFrom(args, vals, s, i + 1) ELSE {})
       ELSE IF a = v THEN MatchFrom(args, vals, s, i + 1) ELSE {}

FactsOf(I, p, n) == {f \in I : f.p = p /\ Len(f.a) = n}
MatchAtom(a, s, I) == UNION {MatchFrom(a.a, f.a, s, 1) : f \in FactsOf(I, a.p, Len(a.a))}

---------------------------------------------------------------------------
\* Built-in predicates with output positions.  Each returns a set of substitutions.
BindOrCheck(t, v, s) ==   \* t is a variable or constant term; v a value
  IF t[1] = "v" THEN
       IF t[2] = "_" THEN {s}
       ELSE IF t[2] \in DOMAIN s THEN (IF s[t[2]] = v THEN {s} ELSE {}) ELSE {Ext(s, t[2], v)}
  ELSE IF EvalTerm(t, s) = v THEN {s} ELSE {}

\* Allen-style relations on closed intervals given as pairs <<"pair", Num(lo), Num(hi)>>
\* (readthedocs/temporal.md, table "Allen's Interval Relations")
IsIv(v) == IsVal(v) /\ IsPair(v) /\ IsNum(v[2]) /\ IsNum(v[3])
IntervalNames == {":interval:before", ":interval:after", ":interval:meets", ":interval:overlaps", ":interval:during",
                  ":interval:contains", ":interval:starts", ":interval:finishes", ":interval:equals"}
RECURSIVE IvRel(_, _, _)
IvRel(name, i, j) ==
  LET lo1 == i[2][2]  hi1 == i[3][2]  lo2 == j[2][2]  hi2 == j[3][2] IN
  CASE name = ":interval:before"   -> hi1 < lo2
    [] name = ":interval:after"    -> IvRel(":interval:before", j, i)
    [] name = ":interval:meets"    -> hi1 = lo2
    [] name = ":interval:overlaps" -> lo1 <= hi2 /\ lo2 <= hi1
    [] name = ":interval:during"   -> lo1 >= lo2 /\ hi1 <= hi2
    [] name = ":interval:contains" -> IvRel(":interval:during", j, i)
    [] name = ":interval:starts"   -> lo1 = lo2
    [] name = ":interval:finishes" -> hi1 = hi2
    [] name = ":interval:equals"   -> lo1 = lo2 /\ hi1 = hi2

BuiltinSols(name, args, s) ==
  LET scrut == EvalTerm(args[1], s) IN
  CASE name \in IntervalNames ->
         LET j == EvalTerm(args[2], s) IN
         IF IsIv(scrut) /\ IsIv(j) /\ IvRel(name, scrut, j) THEN {s} ELSE {}
    [] name = ":match_pair" ->
         IF IsVal(scrut) /\ IsPair(scrut)
         THEN UNION {BindOrCheck(args[3], scrut[3], s1) : s1 \in BindOrCheck(args[2], scrut[2], s)}
         ELSE {}
    [] name = ":match_cons" ->
         IF IsVal(scrut) /\ IsList(scrut) /\ Len(scrut[2]) > 0
         THEN UNION {BindOrCheck(args[3], List(Tail(scrut[2])), s1)
                       : s1 \in BindOrCheck(args[2], Head(scrut[2]), s)}
         ELSE {}
    [] name = ":match_nil" ->
         IF IsVal(scrut) /\ IsList(scrut) /\ Len(scrut[2]) = 0 THEN {s} ELSE {}
    [] name = ":list:member" ->   \* :list:member(Elem, List)
         LET l == EvalTerm(args[2], s) IN
         IF IsVal(l) /\ IsList(l)
         THEN UNION {BindOrCheck(args[1], l[2][i], s) : i \in DOMAIN l[2]}
         ELSE {}
    [] name = ":match_entry" ->   \* :match_entry(Map, Key, Value): key is input
         IF IsVal(scrut) /\ IsMap(scrut)
         THEN UNION {BindOrCheck(args[3], e[2], s) : e \in {x \in Entries(scrut) : x[1] = EvalTerm(args[2], s)}}
         ELSE {}
    [] name = ":match_field" ->
         IF IsVal(scrut) /\ IsStruct(scrut)
         THEN UNION {BindOrCheck(args[3], e[2], s) : e \in {x \in Entries(scrut) : x[1] = EvalTerm(args[2], s)}}
         ELSE {}
    [] OTHER -> {}

\* which argument positions of a built-in must be bound before it can run
BuiltinInputs(name, args) ==
  CASE name \in {":match_pair", ":match_cons", ":match_nil"} -> TermVars(args[1])
    [] name = ":list:member" -> TermVars(args[2])
    [] name \in {":match_entry", ":match_field"} -> TermVars(args[1]) \cup TermVars(args[2])
    [] OTHER -> SeqVars(args)

---------------------------------------------------------------------------
\* One literal.
LitVars(l) ==
  CASE l[1] \in {"pos", "neg"} -> AtomVars(l[2])
    [] l[1] = "bi" -> SeqVars(l[3])
    [] OTHER -> TermVars(l[2]) \cup TermVars(l[3])

\* variables that must already have a value for the literal to be evaluable
Needs(l, bound) ==
  CASE l[1] = "pos" -> UNION {IF IsAp(l[2].a[i]) THEN TermVars(l[2].a[i]) ELSE {} : i \in DOMAIN l[2].a}
    [] l[1] = "neg" -> AtomVars(l[2])
    [] l[1] = "bi"  -> BuiltinInputs(l[2], l[3])
    [] l[1] = "eq"  ->
         \* one side must be evaluable; the other side must be evaluable or a plain variable
         LET lv == TermVars(l[2])  rv == TermVars(l[3]) IN
         IF lv \subseteq bound THEN (IF IsVar(l[3]) THEN {} ELSE rv)
         ELSE IF rv \subseteq bound THEN (IF IsVar(l[2]) THEN {} ELSE lv)
         ELSE lv \cup rv
    [] OTHER -> TermVars(l[2]) \cup TermVars(l[3])
Ready(l, bound) == Needs(l, bound) \subseteq bound

Sols(l, s, I) ==
  CASE l[1] = "pos" -> MatchAtom(l[2], s, I)
    [] l[1] = "neg" -> IF MatchAtom(l[2], s, I) = {} THEN {s} ELSE {}
    [] l[1] = "bi"  -> BuiltinSols(l[2], l[3], s)
    [] l[1] = "eq"  ->
         LET lv == EvalTerm(l[2], s)  rv == EvalTerm(l[3], s) IN
         IF IsVal(lv) /\ IsVal(rv) THEN (IF lv = rv THEN {s} ELSE {})
         ELSE IF IsVal(lv) /\ rv[1] = "unb" /\ IsVar(l[3]) THEN {Ext(s, l[3][2], lv)}
         ELSE IF IsVal(rv) /\ lv[1] = "unb" /\ IsVar(l[2]) THEN {Ext(s, l[2][2], rv)}
         ELSE {}
    [] l[1] = "ne"  ->
         LET lv == EvalTerm(l[2], s)  rv == EvalTerm(l[3], s) IN
         IF IsVal(lv) /\ IsVal(rv) /\ lv # rv THEN {s} ELSE {}
    [] OTHER ->     \* lt le gt ge
         LET lv == EvalTerm(l[2], s)  rv == EvalTerm(l[3], s) IN
         IF IsVal(lv) /\ IsVal(rv) /\ Comparable(lv, rv) /\ CmpHolds(l[1], lv, rv) THEN {s} ELSE {}

---------------------------------------------------------------------------
\* Ready-literal scheduler: an evaluation order in which every literal finds its inputs
\* bound.  0 in the result means "stuck": the clause is unsafe.
RECURSIVE Schedule(_, _, _)
Schedule(body, rem, bound) ==
  IF rem = {} THEN <<>>
  ELSE LET ready == {i \in rem : Ready(body[i], bound)} IN
       IF ready = {} THEN <<0>>
       ELSE LET i == MinOf(ready) IN
            <<i>> \o Schedule(body, rem \ {i}, bound \cup LitVars(body[i]))

BodyVars(c) == UNION {LitVars(c.b[i]) : i \in DOMAIN c.b}
TransformDefs(c) ==
  CASE c.t[1] = "none" -> {}
    [] c.t[1] = "let"  -> {c.t[2][i][1] : i \in DOMAIN c.t[2]} \ {"_"}
    [] c.t[1] = "do"   -> {c.t[3][i][1] : i \in DOMAIN c.t[3]} \ {"_"}
HeadAvail(c) ==
  CASE c.t[1] = "do" -> Ran(c.t[2]) \cup TransformDefs(c)
    [] OTHER -> BodyVars(c) \cup TransformDefs(c)

IsReducer(f) == f \in {"fn:count", "fn:sum", "fn:max", "fn:min", "fn:avg", "fn:count_distinct",
                       "fn:collect_distinct", "fn:collect", "fn:pick_any"}
\* statement i of a let-transform may use body variables and earlier let variables
LetOK(c) ==
  \A i \in DOMAIN c.t[2] :
     TermVars(c.t[2][i][2]) \subseteq BodyVars(c) \cup {c.t[2][j][1] : j \in 1..(i - 1)}
\* A transform that defines a variable which also occurs in the body has no documented meaning
\* (is the body occurrence the transform's value or a different variable?): such clauses are
\* classified, not judged.
Ambiguous(c) ==
  \/ TransformDefs(c) \cap BodyVars(c) # {}
  \/ c.t[1] = "do" /\ \E i \in DOMAIN c.t[3] : IsReducer(c.t[3][i][2]) /\ ~(SeqVars(c.t[3][i][3]) \subseteq BodyVars(c))
\* a reducer folds body variables; any other statement may use the key and earlier definitions
DoOK(c) ==
  /\ Ran(c.t[2]) \subseteq BodyVars(c)
  /\ \A i \in DOMAIN c.t[3] :
       /\ IF IsReducer(c.t[3][i][2]) THEN TRUE   \* (a reducer over a non-body variable: see Ambiguous)
          ELSE SeqVars(c.t[3][i][3]) \subseteq Ran(c.t[2]) \cup {c.t[3][j][1] : j \in 1..(i - 1)}

\* Safety: the scheduler never gets stuck and every head variable receives a value.
Safe(c) ==
  /\ 0 \notin Ran(Schedule(c.b, DOMAIN c.b, {}))
  /\ AtomVars(c.h) \subseteq HeadAvail(c)
  /\ ~\E i \in DOMAIN c.h.a : IsWild(c.h.a[i])
  /\ c.t[1] = "let" => LetOK(c)
  /\ c.t[1] = "do" => DoOK(c)

RECURSIVE SolveOrder(_, _, _, _)
SolveOrder(body, order, S, I) ==
  IF order = <<>> \/ S = {} THEN S
  ELSE SolveOrder(body, Tail(order), UNION {Sols(body[Head(order)], s, I) : s \in S}, I)

\* all solutions of the body (as written: the order-independent meaning for safe clauses)
BodySols(c, I) == SolveOrder(c.b, Schedule(c.b, DOMAIN c.b, {}), {NoSub}, I)
\* solutions of the body evaluated strictly left to right (what an engine does after
\* the analyzer has reordered premises)
BodySolsLTR(c, I) == SolveOrder(c.b, [i \in DOMAIN c.b |-> i], {NoSub}, I)

Inst(h, s) == [p |-> h.p, a |-> [i \in DOMAIN h.a |-> EvalTerm(h.a[i], s)]]
Ground(f) == \A i \in DOMAIN f.a : IsVal(f.a[i])

RECURSIVE ApplyLets(_, _, _)
ApplyLets(stmts, i, s) ==
  IF i > Len(stmts) THEN s
  ELSE ApplyLets(stmts, i + 1, Ext(s, stmts[i][1], EvalTerm(stmts[i][2], s)))

(***************************************************************************)
(* Aggregation: group the solution SET of the rule's own body by the key   *)
(* variables and fold each reducer over the group.                         *)
(***************************************************************************)
RestrictTo(s, X) == [x \in X \cap DOMAIN s |-> s[x]]
GroupRows(c, rows, key) == {s \in rows : RestrictTo(s, Ran(c.t[2])) = key}

RECURSIVE ApplyReducers(_, _, _, _)
ApplyReducers(stmts, i, s, rowseq) ==
  IF i > Len(stmts) THEN s
  ELSE LET st == stmts[i]
           isRed == IsReducer(st[2])
           val == IF isRed
                  THEN Reduce(st[2], [k \in DOMAIN rowseq |->
                                        IF Len(st[3]) = 0 THEN <<"row", k>> ELSE EvalTerm(st[3][1], rowseq[k])])
                  ELSE EvalTerm(Ap(st[2], st[3]), s)
       IN ApplyReducers(stmts, i + 1, Ext(s, st[1], val), rowseq)

Aggregate(c, I) ==
  LET rows == {RestrictTo(s, BodyVars(c)) : s \in BodySols(c, I)}
      keys == {RestrictTo(s, Ran(c.t[2])) : s \in rows} IN
  {Inst(c.h, ApplyReducers(c.t[3], 1, k, SetToSeq(GroupRows(c, rows, k)))) : k \in keys}

\* facts derived by one application of a clause to interpretation I
Derive(c, I) ==
  CASE c.t[1] = "none" -> {Inst(c.h, s) : s \in BodySols(c, I)}
    [] c.t[1] = "let"  -> {Inst(c.h, ApplyLets(c.t[2], 1, s)) : s \in BodySols(c, I)}
    [] c.t[1] = "do"   -> Aggregate(c, I)

IsDo(c) == c.t[1] = "do"

---------------------------------------------------------------------------
(***************************************************************************)
(* Run-time errors.  The documentation fixes the meaning of a rule only    *)
(* when its built-ins receive arguments of the right kind; the engine      *)
(* reports an error otherwise.  ErrLit says when literal l, reached with   *)
(* substitution s, is such an error; HasErr says whether evaluating the    *)
(* rules over interpretation I (left to right in ready order, as the       *)
(* engine does) reaches one.  Programs with HasErr have no model to        *)
(* compare against and are classified, not judged.                         *)
(***************************************************************************)
ApErr(t, s) == IsAp(t) /\ TermVars(t) \subseteq DOMAIN s /\ IsErr(EvalTerm(t, s))
OutputTaken(t, s) == ~IsVar(t) \/ (t[2] # "_" /\ t[2] \in DOMAIN s)
ErrLit(l, s) ==
  CASE l[1] \in {"lt", "le", "gt", "ge"} ->
         LET lv == EvalTerm(l[2], s)  rv == EvalTerm(l[3], s) IN
         ~(IsVal(lv) /\ IsVal(rv) /\ IsNum(lv) /\ IsNum(rv))
    [] l[1] \in {"eq", "ne"} -> ApErr(l[2], s) \/ ApErr(l[3], s)
    [] l[1] = "bi" ->
         CASE l[2] = ":list:member" ->
                LET m == EvalTerm(l[3][1], s)  lst == EvalTerm(l[3][2], s) IN
                ~IsVal(lst) \/ (IsVal(m) /\ ~IsList(lst))
           [] l[2] \in IntervalNames -> ~IsIv(EvalTerm(l[3][1], s)) \/ ~IsIv(EvalTerm(l[3][2], s))
           [] l[2] \in {":match_pair", ":match_cons"} ->
                OutputTaken(l[3][2], s) \/ OutputTaken(l[3][3], s) \/ ~IsVal(EvalTerm(l[3][1], s))
           [] OTHER -> ~IsVal(EvalTerm(l[3][1], s))
    [] OTHER -> \E i \in DOMAIN l[2].a : ApErr(l[2].a[i], s)

RECURSIVE ErrOrder(_, _, _, _)
ErrOrder(body, order, S, I) ==
  IF order = <<>> \/ S = {} THEN FALSE
  ELSE \/ \E s \in S : ErrLit(body[Head(order)], s)
       \/ ErrOrder(body, Tail(order), UNION {Sols(body[Head(order)], s, I) : s \in S}, I)

TransformErr(c, I) ==
  CASE c.t[1] = "let" -> \E s \in BodySols(c, I) :
                            \E i \in DOMAIN c.t[2] : IsErr(EvalTerm(c.t[2][i][2], ApplyLets(c.t[2], 1, s)))
    [] OTHER -> FALSE
HeadErr(c, I) == c.t[1] = "none" /\ \E s \in BodySols(c, I) : \E i \in DOMAIN c.h.a : ApErr(c.h.a[i], s)

HasErr(rules, I) ==
  \E c \in rules : \/ ErrOrder(c.b, Schedule(c.b, DOMAIN c.b, {}), {NoSub}, I)
                    \/ TransformErr(c, I) \/ HeadErr(c, I)

---------------------------------------------------------------------------
\* Dependency graph and stratification (meaning, not algorithm).
BodyPredRefs(c) ==    \* set of <<pred, negative?>> mentions
  {<<c.b[i][2].p, (c.b[i][1] = "neg") \/ IsDo(c)>> : i \in {j \in DOMAIN c.b : c.b[j][1] \in {"pos", "neg"}}}
HeadPreds(rules) == {r.h.p : r \in rules}
DepEdges(rules) ==
  UNION {{<<r.h.p, e[1], e[2]>> : e \in {x \in BodyPredRefs(r) : x[1] \in HeadPreds(rules)}} : r \in rules}

RECURSIVE LevelIter(_, _, _)
LevelIter(lv, E, n) ==
  LET nl == [p \in DOMAIN lv |->
               MaxOf({0} \cup {lv[e[2]] + (IF e[3] THEN 1 ELSE 0) : e \in {x \in E : x[1] = p}})] IN
  IF nl = lv THEN lv
  ELSE IF n = 0 THEN [p \in DOMAIN lv |-> -1]
  ELSE LevelIter(nl, E, n - 1)

\* level of each IDB predicate = max number of negative edges on a path from it;
\* all -1 when some cycle has a negative edge (not stratifiable)
Levels(rules) ==
  LET P == HeadPreds(rules)
      n == Cardinality(P) IN
  LevelIter([p \in P |-> 0], DepEdges(rules), n * n + 1)
Stratifiable(rules) ==
  LET lv == Levels(rules) IN
  \A p \in DOMAIN lv : lv[p] >= 0 /\ lv[p] <= Cardinality(DOMAIN lv)

\* Strongly connected components of the dependency graph, and valid evaluation orders.
Reach(E, P) ==
  LET R0 == {<<p, p>> : p \in P} \cup {<<e[1], e[2]>> : e \in E}
      RECURSIVE Close(_)
      Close(R) == LET R3 == R \cup UNION {{<<a[1], b[2]>> : b \in {x \in R : x[1] = a[2]}} : a \in R} IN
                  IF R3 = R THEN R ELSE Close(R3)
  IN Close(R0)
SCCs(rules) ==
  LET P == HeadPreds(rules)
      R == Reach(DepEdges(rules), P) IN
  {{q \in P : <<p, q>> \in R /\ <<q, p>> \in R} : p \in P}
\* component c may be evaluated when everything it depends on is done
ReadyComp(rules, c, done) ==
  \A e \in DepEdges(rules) : e[1] \in c => (e[2] \in c \/ e[2] \in done)


RECURSIVE Lfp(_, _, _)
\* least fixpoint of the plain rules over I; fuel bounds divergence (fuel 0 => give up)
Lfp(rules, I, fuel) ==
  LET J == I \cup UNION {Derive(r, I) : r \in rules} IN
  IF J = I THEN I ELSE IF fuel = 0 THEN J ELSE Lfp(rules, J, fuel - 1)

RECURSIVE ModelFrom(_, _, _, _, _)
ModelFrom(rules, lv, k, I, fuel) ==
  IF k > MaxOf({0} \cup Ran(lv)) THEN I
  ELSE LET here == {r \in rules : lv[r.h.p] = k}
           doFacts == UNION {Derive(r, I) : r \in {x \in here : IsDo(x)}}
           J == Lfp({x \in here : ~IsDo(x)}, I \cup doFacts, fuel)
       IN ModelFrom(rules, lv, k + 1, J, fuel)

\* The stratified least model of rules (a set of clauses with non-empty bodies) over edb.
StratifiedModel(rules, edb) == ModelFrom(rules, Levels(rules), 0, edb, 1000)
\* the same with explicit fuel, for diverging programs (C17)
StratifiedModelFuel(rules, edb, fuel) == ModelFrom(rules, Levels(rules), 0, edb, fuel)

=============================================================================
