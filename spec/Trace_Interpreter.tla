-------------------------- MODULE Trace_Interpreter ---------------------------
(***************************************************************************)
(* Direction B for C16: recorded command histories of the real interpreter *)
(* (define / load / pop), with an observation of every library predicate   *)
(* after each command (known? which facts?), validated against             *)
(* Interpreter.tla: accept/reject of each command and the visible state.   *)
(***************************************************************************)
EXTENDS Interpreter, Json, IOUtils
Trace == ndJsonDeserialize(IOEnv.TRACE)
VARIABLES l, lib, frags, buffer, skipping
SetOf(q) == {q[i] : i \in DOMAIN q}
\* The state follows the OBSERVED outcome of each command (which definitions are live is a matter of
\* the stack discipline, not of the specification's own acceptance rules).
St(e) == CASE e.ev = "define" -> IF e.ok THEN <<frags, Append(buffer, e.text)>> ELSE <<frags, buffer>>
           [] e.ev = "load"   -> IF e.ok THEN <<Append(frags, SetOf(e.files)), <<>>>> ELSE <<frags, <<>>>>
           [] e.ev = "pop"    -> PopEffect(frags, buffer)
           [] OTHER -> <<frags, buffer>>
QOK(q) ==
  LET vis == Visible(lib, frags, buffer)  kn == Known(lib, frags, buffer) IN
  \A i \in DOMAIN q :
     LET o == q[i]  p == <<o.pred, o.arity>> IN
     IF p \in kn THEN o.known /\ SetOf(o.facts) = {f \in vis : f.p = o.pred /\ Len(f.a) = o.arity}
     ELSE ~o.known
\* the interpreter and a fresh interpreter holding only the live definitions both show the model of the live clauses
ObsOK(e) == QOK(e.q) /\ QOK(e.fresh_q)
Agrees(e) ==
  \* a command is accepted exactly when a fresh interpreter holding the live definitions accepts it
  CASE e.ev = "define" -> e.ok = e.fresh_ok
    [] e.ev = "load"   -> e.ok = e.fresh_ok
    [] e.ev = "pop"    -> TRUE
    [] e.ev = "obs"    -> ObsOK(e)
    [] OTHER -> FALSE
Expected(e) ==
  CASE e.ev = "define" -> ToJson(e.fresh_ok)
    [] e.ev = "load"   -> ToJson(e.fresh_ok)
    [] e.ev = "obs"    -> ToJson([known |-> Known(lib, frags, buffer), visible |-> Visible(lib, frags, buffer), frags |-> frags, buffer |-> buffer])
    [] OTHER -> "null"
Init == l = 1 /\ lib = <<>> /\ frags = <<>> /\ buffer = <<>> /\ skipping = FALSE
Reset == /\ l <= Len(Trace) /\ Trace[l].ev = "reset"
         /\ lib' = Trace[l] /\ frags' = <<>> /\ buffer' = <<>> /\ skipping' = FALSE /\ l' = l + 1
Step  == /\ l <= Len(Trace) /\ Trace[l].ev # "reset" /\ ~skipping
         /\ l' = l + 1 /\ UNCHANGED lib
         /\ (IF (Trace[l].ev = "define" /\ Trace[l].ok # DefineOK(lib, frags, buffer, Trace[l].text))
                \/ (Trace[l].ev = "load" /\ Trace[l].ok # LoadOK(lib, frags, SetOf(Trace[l].files)))
             THEN PrintT(<<"DRIFT", lib.id, l, Trace[l].ev>>) ELSE TRUE)   \* the spec's own acceptance rule differs: a warning
         /\ IF Agrees(Trace[l]) THEN frags' = St(Trace[l])[1] /\ buffer' = St(Trace[l])[2] /\ skipping' = FALSE
            ELSE /\ PrintT(<<"MISMATCH", lib.id, l, Trace[l].ev, Expected(Trace[l])>>)
                 /\ skipping' = TRUE /\ UNCHANGED <<frags, buffer>>
Skip  == /\ l <= Len(Trace) /\ Trace[l].ev # "reset" /\ skipping
         /\ l' = l + 1 /\ UNCHANGED <<lib, frags, buffer, skipping>>
Next == Reset \/ Step \/ Skip
Accepted == l = Len(Trace) + 1 => PrintT(<<"CONSUMED", Len(Trace)>>)
=============================================================================
