SPECIFICATION Spec
CONSTANTS
  Heads <- PRHeads
  BodyLits <- PRLits
  MaxBody = 2
  Transforms <- PRTransforms
  MaxRules = 2
  FixedRules = {}
  EdbChoices <- PREdbs
  ExtraRules = {}
  Randomized = FALSE
  Keep <- KeepSafe
INVARIANT Emit
CHECK_DEADLOCK FALSE
