SPECIFICATION Spec
CONSTANTS
  Heads <- BadHeads
  BodyLits <- BadLits
  MaxBody = 2
  Transforms <- BadTransforms
  MaxRules = 1
  FixedRules = {}
  EdbChoices <- BadEdbs
  ExtraRules = {}
  Randomized = FALSE
  Keep <- KeepAll
INVARIANT Emit
CHECK_DEADLOCK FALSE
