INIT Init
NEXT Next
CONSTANT Style = "positional"
INVARIANTS T09f Emit
CHECK_DEADLOCK FALSE
