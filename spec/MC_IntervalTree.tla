---------------------------- MODULE MC_IntervalTree ----------------------------
(* T13a: for EVERY insertion order of up to MaxN intervals from a 0..4 timeline (incl. equal starts, nested,
   touching, half-unbounded and eternal ones) the tree stays well-formed and the pruned searches agree
   with the pointwise meaning of closed intervals.                                                   *)
EXTENDS IntervalTree
CONSTANT MaxN
VARIABLES tree, ins
Ivs == {iv \in (0..3) \X (0..3) : iv[1] <= iv[2]} \cup {<<NEG, 1>>, <<2, POS>>, <<NEG, POS>>}
Init == tree = Nil /\ ins = {}
Insert(iv) == /\ Cardinality(ins) < MaxN /\ ~FindExact(tree, iv)
              /\ tree' = Ins(tree, iv) /\ ins' = ins \cup {iv}
Next == \E iv \in Ivs : Insert(iv)
Points == (-1)..4
T13a == /\ WellFormed(tree)
        /\ AllOf(tree) = ins /\ SizeOf(tree) = Cardinality(ins)
        /\ \A iv \in Ivs : FindExact(tree, iv) <=> iv \in ins
        /\ \A ts \in Points \cup {NEG, POS} : QueryPoint(tree, ts) = {iv \in ins : iv[1] <= ts /\ ts <= iv[2]}
        /\ \A s \in Points, e \in Points : s <= e => QueryRange(tree, s, e) = {iv \in ins : iv[1] <= e /\ s <= iv[2]}
=============================================================================
