SPECIFICATION Spec
CONSTANTS
  Heads <- E1Heads
  BodyLits <- ProvLits
  MaxBody = 2
  Transforms <- E1Transforms
  MaxRules = 2
  FixedRules = {}
  EdbChoices <- E1Edbs
  ExtraRules = {}
  Randomized = FALSE
  Keep <- KeepProv
INVARIANT Emit
CHECK_DEADLOCK FALSE
