SPECIFICATION Spec
CONSTANTS
  MergeTiming = "eager"
  DoFeedback = "rerun"
  TmpName = "constant"
  Programs <- ProgramsSmall
INVARIANTS T01
CHECK_DEADLOCK FALSE
