SPECIFICATION Spec
CONSTANTS
  MergeTiming = "eager"
  TmpName = "constant"
  Programs <- ProgramsSmall
INVARIANTS T01
CHECK_DEADLOCK FALSE
