INIT Init
NEXT Next
CONSTANT Mode = "red"
INVARIANTS Emit T07
CHECK_DEADLOCK FALSE
