INIT Init
NEXT Next
CONSTANT Style = "general"
INVARIANTS T09f
CHECK_DEADLOCK FALSE
