------------------------------ MODULE Trace_Types -----------------------------
(***************************************************************************)
(* Direction B for C12: line 1 is the witness universe; every "type" line  *)
(* carries a type expression, the answers of the library's own HasType on  *)
(* every constant of the universe (row) and the indexes of the types it is *)
(* judged to conform to; "bounds" lines carry the HasType rows of computed *)
(* upper and lower bounds of a list of types.  TLC checks soundness:       *)
(*   SetConforms(S,T) => members(S) subset members(T)   (library HasType)  *)
(*   members(Ti) subset members(UpperBound);  members(LowerBound) subset   *)
(*   every members(Ti).  Rows are also compared with Types!Member (drift). *)
(***************************************************************************)
EXTENDS Types, Json, IOUtils
Trace == ndJsonDeserialize(IOEnv.TRACE)
VARIABLE l
U == Trace[1].universe
RowSet(row) == {i \in DOMAIN row : row[i]}
TypeLine(k) == Trace[k + 1]     \* types are numbered from 1; line 1 is the header
Init == l = 2
Check(e) ==
  CASE e.ev = "type" ->
         /\ \A j \in {e.conf[k] : k \in DOMAIN e.conf} :
              RowSet(e.row) \subseteq RowSet(TypeLine(j).row)
              \/ PrintT(<<"MISMATCH", e.id, j, "UNSOUND_CONFORMANCE", ToJson([c |-> U[CHOOSE i \in RowSet(e.row) \ RowSet(TypeLine(j).row) : TRUE]])>>)
         /\ (\A i \in DOMAIN U : e.row[i] = Member(e.type, U[i])) \/ PrintT(<<"DRIFT", e.id, "HASTYPE_DIFFERS_FROM_SPEC">>)
    [] e.ev = "bounds" ->
         /\ (\A k \in DOMAIN e.idx : RowSet(TypeLine(e.idx[k]).row) \subseteq RowSet(e.ub_row))
            \/ PrintT(<<"MISMATCH", e.id, 0, "UPPER_BOUND_MISSES_MEMBERS", "null">>)
         /\ (\A k \in DOMAIN e.idx : RowSet(e.lb_row) \subseteq RowSet(TypeLine(e.idx[k]).row))
            \/ PrintT(<<"MISMATCH", e.id, 0, "LOWER_BOUND_HAS_EXTRA_MEMBERS", "null">>)
    [] OTHER -> TRUE
Next == /\ l <= Len(Trace) /\ l' = l + 1 /\ Check(Trace[l])
Accepted == l = Len(Trace) + 1 => PrintT(<<"CONSUMED", Len(Trace)>>)
=============================================================================
