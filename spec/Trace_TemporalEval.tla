-------------------------- MODULE Trace_TemporalEval --------------------------
(***************************************************************************)
(* Direction B for C14: each line is one temporal program (temporal base   *)
(* facts, evaluation time, one- or two-rule program) with the contents of  *)
(* the regular and the temporal store after the real EvalProgram; both are *)
(* compared with TemporalSem!TModel.                                       *)
(***************************************************************************)
EXTENDS TemporalSem, Json, IOUtils
Trace == ndJsonDeserialize(IOEnv.TRACE)
VARIABLE l
SetOf(q) == {q[i] : i \in DOMAIN q}
PairsOf(q) == {<<q[i][1], <<q[i][2][1], q[i][2][2]>>>> : i \in DOMAIN q}
LitOf(r) == [op |-> r.op, w |-> <<r.w[1], r.w[2]>>, atom |-> r.atom, ann |-> r.ann]
RuleOf(r) == [h |-> r.h, ht |-> r.ht] @@ LitOf(r) @@ (IF "lit2" \in DOMAIN r THEN [lit2 |-> LitOf(r.lit2)] ELSE <<>>)
             @@ (IF "let" \in DOMAIN r THEN [let |-> <<r.let[1], r.let[2]>>] ELSE <<>>)
\* coalesced = the base facts went into the temporal store through its API and TemporalStore.Coalesce ran for every
\* predicate before the rules were evaluated: the operators then have their documented meaning over CoalesceDB(facts)
Coalesced(c) == "coalesced" \in DOMAIN c /\ c.coalesced
Expected(c) == TModel({RuleOf(c.rules[i]) : i \in DOMAIN c.rules}, IF Coalesced(c) THEN CoalesceDB(PairsOf(c.tfacts), 0) ELSE PairsOf(c.tfacts), {}, c.now, 6)
\* Databases with overlapping intervals of one atom (C05): the operators' meaning is documented for
\* coalesced facts only, so such a case is judged for order-independence alone: every presentation
\* (clause and fact order, store kind, deterministic order, repetition) must give the same stores.
Overlap(c) == "overlap" \in DOMAIN c /\ c.overlap /\ ~Coalesced(c)
Inconsistent(c, i) ==
  /\ c.variants[i].outcome = "ok"
  /\ \E j \in 1..(i - 1) : c.variants[j].outcome = "ok"
        /\ (ToJson(c.variants[j].got) # ToJson(c.variants[i].got) \/ ToJson(c.variants[j].tgot) # ToJson(c.variants[i].tgot))
Verdict(c, v) ==
  IF v.outcome # "ok" THEN (IF v.outcome \in {"eval_err", "panic"} THEN "EVAL_FAILURE" ELSE "fine")
  ELSE IF Overlap(c) THEN "fine"
  ELSE LET e == Expected(c) IN
       IF SetOf(v.got) # e[1] THEN "FACTS_MISMATCH"
       ELSE IF PairsOf(v.tgot) # e[2] THEN "TEMPORAL_FACTS_MISMATCH" ELSE "fine"
Init == l = 1
Next == /\ l <= Len(Trace) /\ l' = l + 1
        /\ LET c == Trace[l] IN
           /\ PrintT(<<"CLASS", c.id, "temporal">>)
           /\ \A i \in DOMAIN c.variants :
                LET v == IF Inconsistent(c, i) THEN "INCONSISTENT" ELSE Verdict(c, c.variants[i]) IN
                v = "fine"
                \/ PrintT(<<"MISMATCH", c.id, i, v, IF Overlap(c) THEN "null" ELSE ToJson(Expected(c))>>)
Accepted == l = Len(Trace) + 1 => PrintT(<<"CONSUMED", Len(Trace)>>)
=============================================================================
