-------------------------- MODULE Trace_TemporalEval --------------------------
(***************************************************************************)
(* Direction B for C14: each line is one temporal program (temporal base   *)
(* facts, evaluation time, one- or two-rule program) with the contents of  *)
(* the regular and the temporal store after the real EvalProgram; both are *)
(* compared with TemporalSem!TModel.                                       *)
(***************************************************************************)
EXTENDS TemporalSem, Json, IOUtils
Trace == ndJsonDeserialize(IOEnv.TRACE)
VARIABLE l
SetOf(q) == {q[i] : i \in DOMAIN q}
PairsOf(q) == {<<q[i][1], <<q[i][2][1], q[i][2][2]>>>> : i \in DOMAIN q}
RuleOf(r) == [h |-> r.h, ht |-> r.ht, op |-> r.op, w |-> <<r.w[1], r.w[2]>>, atom |-> r.atom, ann |-> r.ann]
Expected(c) == TModel({RuleOf(c.rules[i]) : i \in DOMAIN c.rules}, PairsOf(c.tfacts), {}, c.now, 6)
Verdict(c, v) ==
  IF v.outcome # "ok" THEN (IF v.outcome \in {"eval_err", "panic"} THEN "EVAL_FAILURE" ELSE "fine")
  ELSE LET e == Expected(c) IN
       IF SetOf(v.got) # e[1] THEN "FACTS_MISMATCH"
       ELSE IF PairsOf(v.tgot) # e[2] THEN "TEMPORAL_FACTS_MISMATCH" ELSE "fine"
Init == l = 1
Next == /\ l <= Len(Trace) /\ l' = l + 1
        /\ LET c == Trace[l] IN
           /\ PrintT(<<"CLASS", c.id, "temporal">>)
           /\ \A i \in DOMAIN c.variants :
                Verdict(c, c.variants[i]) = "fine"
                \/ PrintT(<<"MISMATCH", c.id, i, Verdict(c, c.variants[i]), ToJson(Expected(c))>>)
Accepted == l = Len(Trace) + 1 => PrintT(<<"CONSUMED", Len(Trace)>>)
=============================================================================
