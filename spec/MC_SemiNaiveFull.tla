--------------------------- MODULE MC_SemiNaiveFull ---------------------------
(* The full scope: every safe, stratifiable E1 program of <= 2 rules with <= 2 body literals.
   Kept in its own module because TLC evaluates every constant definition at start-up. *)
EXTENDS MC_SemiNaive
ProgramsFull == E1Programs(2) \cup {LostJoin, TwoCounts, RecAgg}
=============================================================================
