INIT Init
NEXT Next
CONSTANT Randomized = FALSE
CONSTANT Family = "prefix"
INVARIANT Emit
CHECK_DEADLOCK FALSE
