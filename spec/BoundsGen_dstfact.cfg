INIT Init
NEXT Next
CONSTANT Randomized = FALSE
CONSTANT Family = "dstfact"
INVARIANT Emit
CHECK_DEADLOCK FALSE
