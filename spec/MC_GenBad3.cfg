SPECIFICATION Spec
CONSTANTS
  Heads <- BadHeads3
  BodyLits <- BadLits
  MaxBody = 3
  Transforms <- BadNone
  MaxRules = 1
  FixedRules = {}
  EdbChoices <- BadEdbs
  ExtraRules = {}
  Randomized = FALSE
  Keep <- KeepAll
INVARIANT Emit
CHECK_DEADLOCK FALSE
