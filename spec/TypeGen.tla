------------------------------- MODULE TypeGen --------------------------------
(* Direction A for C12/C11: the space of closed type expressions of nesting depth <= 2 and the witness universe
   (which has an inhabitant outside every type of the space), printed once. *)
EXTENDS Types, Json, SequencesExt
VARIABLE done
Cn(parts) == <<"cn", parts>>
Base == { <<"ty", "/any">>, <<"ty", "/number">>, <<"ty", "/string">>, <<"ty", "/name">>, <<"ty", "/float64">>,
          <<"ty", "/time">>, <<"ty", "/duration">>, <<"pre", <<"time", "zone">>>>, <<"pre", <<"duration">>>>,
          <<"pre", <<"foo">>>>, <<"pre", <<"foobar">>>>, <<"pre", <<"foo", "a">>>>, <<"pre", <<"num">>>>,
          <<"single", Num(1)>>, <<"single", Cn(<<"foo", "a">>)>>, <<"single", Str("x")>> }
Small == { <<"ty", "/any">>, <<"ty", "/number">>, <<"ty", "/string">>, <<"ty", "/name">>, <<"ty", "/time">>, <<"pre", <<"foo">>>>, <<"pre", <<"foo", "a">>>>, <<"pre", <<"foobar">>>>, <<"single", Num(1)>> }
Depth1 ==
  {<<"union", <<a, b>>>> : a \in Small, b \in Small}
  \cup {<<"tpair", a, b>> : a \in Small, b \in Small}
  \cup {<<"tlist", a>> : a \in Base}
  \cup {<<"tmap", a, b>> : a \in Small, b \in Small}
  \cup {<<"tstruct", <<<<"a", x, FALSE>>>>>> : x \in Small}
  \cup {<<"tstruct", <<<<"a", x, FALSE>>, <<"b", y, o>>>>>> : x \in {<<"ty", "/any">>, <<"ty", "/number">>}, y \in {<<"ty", "/string">>, <<"pre", <<"foo">>>>}, o \in BOOLEAN}
  \cup {<<"tstruct", <<>>>>}
  \* tagged unions: variants with and without fields, the field-less one first, in the middle, last
  \cup {<<"ttagged", "kind", vs>> : vs \in {
           <<<<"p", <<<<"a", <<"ty", "/number">>, FALSE>>>>>>, <<"q", <<>>>>>>,
           <<<<"q", <<>>>>, <<"p", <<<<"a", <<"ty", "/number">>, FALSE>>>>>>>>,
           <<<<"q", <<>>>>, <<"r", <<>>>>>>,
           <<<<"p", <<<<"a", <<"ty", "/number">>, FALSE>>>>>>, <<"q", <<>>>>, <<"r", <<<<"b", <<"ty", "/string">>, FALSE>>>>>>>>,
           <<<<"p", <<<<"a", <<"ty", "/number">>, FALSE>>>>>>, <<"r", <<<<"a", <<"ty", "/string">>, FALSE>>>>>>>> }}
  \* the variants on their own, as structs with a singleton tag
  \cup {<<"tstruct", <<<<"kind", <<"single", Cn(<<g>>)>>, FALSE>>>>>> : g \in {"p", "q", "r"}}
  \cup {<<"tstruct", <<<<"kind", <<"single", Cn(<<"p">>)>>, FALSE>>, <<"a", <<"ty", "/number">>, FALSE>>>>>>}
Depth2 ==
  {<<"tlist", t>> : t \in {<<"tpair", <<"ty", "/number">>, <<"pre", <<"foo">>>>>>, <<"union", <<<<"ty", "/number">>, <<"ty", "/string">>>>>>, <<"tlist", <<"ty", "/number">>>>}}
  \cup {<<"union", <<<<"tlist", <<"ty", "/number">>>>, <<"tpair", <<"ty", "/any">>, <<"ty", "/any">>>>>>>>}
AllTypes == Base \cup Depth1 \cup Depth2
Universe ==
  << Num(0), Num(1), Str("a"), Str("x"), Str("/foo"), <<"f", "1.5">>, Tm(1), Du(90),
     Cn(<<"time">>), Cn(<<"time", "zone", "utc">>), Cn(<<"duration", "x">>),
     Cn(<<"foo">>), Cn(<<"foo", "a">>), Cn(<<"foo", "a", "b">>), Cn(<<"foobar">>), Cn(<<"foobar", "x">>), Cn(<<"num", "x">>), Cn(<<"number">>), Cn(<<"bar">>),
     Pair(Num(1), Str("a")), Pair(Cn(<<"foo", "a">>), Num(1)), Pair(Str("a"), Str("a")), Pair(Num(1), Cn(<<"foobar", "x">>)),
     List(<<>>), List(<<Num(1)>>), List(<<Num(1), Str("a")>>), List(<<Cn(<<"foo", "a">>)>>), List(<<Cn(<<"foobar", "x">>)>>), List(<<List(<<Num(1)>>)>>),
     List(<<Pair(Num(1), Cn(<<"foo", "a">>))>>),
     MapV(<<>>), MapV(<<<<Num(1), Str("a")>>>>), MapV(<<<<Str("k"), Num(1)>>>>), MapV(<<<<Cn(<<"foo", "a">>), Num(1)>>>>), MapV(<<<<Cn(<<"foobar", "x">>), Num(1)>>>>),
     StructV(<<>>), StructV(<<<<Cn(<<"a">>), Num(1)>>>>), StructV(<<<<Cn(<<"a">>), Num(1)>>, <<Cn(<<"b">>), Str("x")>>>>),
     StructV(<<<<Cn(<<"b">>), Str("x")>>>>), StructV(<<<<Cn(<<"a">>), Str("x")>>>>), StructV(<<<<Cn(<<"a">>), Num(1)>>, <<Cn(<<"b">>), Cn(<<"foo", "q">>)>>>>),
     StructV(<<<<Cn(<<"kind">>), Cn(<<"p">>)>>, <<Cn(<<"a">>), Num(1)>>>>), StructV(<<<<Cn(<<"kind">>), Cn(<<"q">>)>>>>), StructV(<<<<Cn(<<"kind">>), Cn(<<"r">>)>>>>),
     StructV(<<<<Cn(<<"kind">>), Cn(<<"q">>)>>, <<Cn(<<"a">>), Num(1)>>>>), StructV(<<<<Cn(<<"kind">>), Cn(<<"r">>)>>, <<Cn(<<"a">>), Str("x")>>>>),
     StructV(<<<<Cn(<<"kind">>), Cn(<<"r">>)>>, <<Cn(<<"b">>), Str("x")>>>>), StructV(<<<<Cn(<<"kind">>), Cn(<<"p">>)>>>>) >>
Init == done = FALSE
Next == ~done /\ done' = TRUE
Emit == done => PrintT(<<"CASE", ToJson([universe |-> Universe, types |-> SetToSeq(AllTypes)])>>)
\* the witness universe separates the space: every type has an inhabitant outside it unless it is /any
Separates == \A t \in Base \cup {x \in Depth1 : x[1] # "union"} : t = <<"ty", "/any">> \/ \E i \in DOMAIN Universe : ~Member(t, Universe[i])
=============================================================================
