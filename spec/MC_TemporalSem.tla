---------------------------- MODULE MC_TemporalSem ----------------------------
(* T14 on the specification: identities of the interval relations (converse pairs, symmetry) over all pairs
   of closed intervals on 0..4, and of the temporal operators over all coalesced one-atom databases of <= 2
   intervals, every evaluation time and every window: box implies diamond, widening a window keeps diamond
   solutions and loses no box solution when narrowed, past and future operators mirror each other.     *)
EXTENDS TemporalSem
CONSTANT N
VARIABLES i, j, T, now, w
Iv(a, b) == Pair(Num(a), Num(b))
AllIv == {x \in {Iv(a, b) : a \in 0..N, b \in 0..N} : x[2][2] <= x[3][2]}
At == [p |-> "tb", a |-> <<Nm("/a")>>]
Raw == {<<lo, hi>> \in (0..N) \X (0..N) : lo <= hi} \cup {<<NEG, 2>>, <<2, POS>>}
DBs == {{}} \cup {{<<At, x>>} : x \in Raw} \cup {{<<At, x>>, <<At, y>>} : x \in Raw, y \in {z \in Raw : z[1] > 0 /\ z[1] # NEG}}
Coal(db) == \A x \in db, y \in db : x # y => (x[2][2] < y[2][1] \/ y[2][2] < x[2][1])
Wins == {x \in (0..3) \X (0..3) : x[1] <= x[2]}
Init == i \in AllIv /\ j \in AllIv /\ T \in {db \in DBs : Coal(db)} /\ now \in {0, 2, N} /\ w \in Wins
Next == UNCHANGED <<i, j, T, now, w>>
R(n, x, y) == IvRel(n, x, y)
Lit(op, win) == [h |-> [p |-> "o", a |-> <<Var("X")>>], ht |-> <<"none">>, op |-> op, w |-> win,
                 atom |-> [p |-> "tb", a |-> <<Var("X")>>], ann |-> <<"none">>]
Sol(op, win, db, n) == TLitSols(Lit(op, win), db, n)
Mirror(db, n) == {<<x[1], <<(IF x[2][2] = POS THEN NEG ELSE 2 * n - x[2][2]), (IF x[2][1] = NEG THEN POS ELSE 2 * n - x[2][1])>>>> : x \in db}
T14 ==
  /\ R(":interval:before", i, j) <=> R(":interval:after", j, i)
  /\ R(":interval:during", i, j) <=> R(":interval:contains", j, i)
  /\ R(":interval:overlaps", i, j) <=> R(":interval:overlaps", j, i)
  /\ R(":interval:equals", i, j) <=> (R(":interval:starts", i, j) /\ R(":interval:finishes", i, j))
  /\ R(":interval:equals", i, j) <=> i = j
  /\ R(":interval:before", i, j) => ~R(":interval:overlaps", i, j)
  /\ (R(":interval:meets", i, j) /\ i[2][2] <= i[3][2]) => R(":interval:overlaps", i, j)   \* closed intervals: a shared end point is shared time
  /\ Sol("bm", w, T, now) \subseteq Sol("dm", w, T, now)
  /\ Sol("bp", w, T, now) \subseteq Sol("dp", w, T, now)
  /\ \A w2 \in Wins : (w2[1] <= w[1] /\ w[2] <= w2[2]) =>
        (Sol("dm", w, T, now) \subseteq Sol("dm", w2, T, now) /\ Sol("bm", w2, T, now) \subseteq Sol("bm", w, T, now))
  /\ Sol("dm", w, T, now) = Sol("dp", w, Mirror(T, now), now)
  /\ Sol("bm", w, T, now) = Sol("bp", w, Mirror(T, now), now)
=============================================================================
