SPECIFICATION Spec
CONSTANTS
  Atoms <- U
  Patterns <- Pats
  MergeSources <- Srcs
  MaxLen = 3
  Randomized = FALSE
INVARIANT Emit
CHECK_DEADLOCK FALSE
