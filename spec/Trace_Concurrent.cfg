INIT Init
NEXT Next
INVARIANTS Reached Accepted
CHECK_DEADLOCK FALSE
