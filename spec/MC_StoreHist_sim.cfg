SPECIFICATION Spec
CONSTANTS
  Atoms <- U
  Patterns <- Pats
  MergeSources <- Srcs
  MaxLen = 14
  Randomized = TRUE
INVARIANT Emit
CHECK_DEADLOCK FALSE
