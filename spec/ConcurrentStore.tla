--------------------------- MODULE ConcurrentStore ----------------------------
(***************************************************************************)
(* Layer 3 - factstore.ConcurrentFactStore: a read-write mutex around      *)
(* every operation of a wrapped store (property C18).  The wrapped store's *)
(* operations are NOT atomic: a merge adds its atoms one by one and a      *)
(* query reads them one by one.  One action per critical section:          *)
(*   Call(p, op)    the goroutine enters the method                         *)
(*   Acquire(p)     mutex.Lock / RLock                                     *)
(*   Micro(p)       one elementary read or write of the wrapped store      *)
(*   Release(p)     Unlock / RUnlock, the reply is fixed                   *)
(* SkipLock is the set of operation kinds that (wrongly) do not take the   *)
(* lock - the mutant TLC must reject.                                      *)
(***************************************************************************)
EXTENDS Integers, Sequences, FiniteSets, TLC
CONSTANTS Procs, Atoms, OpsOf(_), SkipLock

VARIABLES S,      \* contents of the wrapped store
          lock,   \* <<"free">> | <<"W", p>> | <<"R", set of p>>
          pc,     \* per process: "idle" | "want" | "in" | "done"
          cur,    \* per process: [op, todo, acc, snap]  todo = atoms still to touch, acc = reply so far, snap = S when the section was entered
          n       \* per process: number of operations completed
vars == <<S, lock, pc, cur, n>>

IsWrite(op) == op.k \in {"add", "rm", "merge"}
Touched(op) == CASE op.k \in {"add", "rm", "has"} -> {op.a}
                 [] op.k = "merge" -> op.from
                 [] op.k \in {"query", "list", "count"} -> Atoms   \* ListPredicates / EstimateFactCount walk the whole store
Idle == [op |-> [k |-> "none"], todo |-> {}, acc |-> {}, snap |-> {}]

Init == S = {} /\ lock = <<"free">> /\ pc = [p \in Procs |-> "idle"] /\ cur = [p \in Procs |-> Idle]
        /\ n = [p \in Procs |-> 0]

Call(p) == /\ pc[p] = "idle" /\ n[p] < Len(OpsOf(p))
           /\ LET op == OpsOf(p)[n[p] + 1] IN
              /\ cur' = [cur EXCEPT ![p] = [op |-> op, todo |-> Touched(op), acc |-> {}, snap |-> S]]
              /\ pc' = [pc EXCEPT ![p] = IF op.k \in SkipLock THEN "in" ELSE "want"]
           /\ UNCHANGED <<S, lock, n>>

Acquire(p) == /\ pc[p] = "want"
              /\ IF IsWrite(cur[p].op)
                 THEN lock = <<"free">> /\ lock' = <<"W", p>>
                 ELSE \/ lock = <<"free">> /\ lock' = <<"R", {p}>>
                      \/ lock[1] = "R" /\ lock' = <<"R", lock[2] \cup {p}>>
              /\ pc' = [pc EXCEPT ![p] = "in"]
              /\ cur' = [cur EXCEPT ![p].snap = S]
              /\ UNCHANGED <<S, n>>

\* one elementary step of the wrapped store inside the section
Micro(p) == /\ pc[p] = "in" /\ cur[p].todo # {}
            /\ \E a \in cur[p].todo :
                 LET op == cur[p].op IN
                 /\ cur' = [cur EXCEPT ![p].todo = @ \ {a},
                                       ![p].acc = IF a \in S /\ op.k \in {"has", "query", "add", "rm", "list", "count"} THEN @ \cup {a} ELSE @]
                 /\ S' = CASE op.k \in {"add", "merge"} -> S \cup {a}
                           [] op.k = "rm" -> S \ {a}
                           [] OTHER -> S
            /\ UNCHANGED <<lock, pc, n>>

Release(p) == /\ pc[p] = "in" /\ cur[p].todo = {}
              /\ lock' = IF cur[p].op.k \in SkipLock THEN lock
                         ELSE IF lock[1] = "W" THEN <<"free">>
                         ELSE IF lock[2] = {p} THEN <<"free">> ELSE <<"R", lock[2] \ {p}>>
              /\ pc' = [pc EXCEPT ![p] = "idle"] /\ n' = [n EXCEPT ![p] = @ + 1]
              /\ UNCHANGED <<S, cur>>

Next == \E p \in Procs : Call(p) \/ Acquire(p) \/ Micro(p) \/ Release(p)
Spec == Init /\ [][Next]_vars

InSection(p) == pc[p] = "in"
\* no operation is inside its section together with a writer
MutualExclusion ==
  \A p, q \in Procs : (p # q /\ InSection(p) /\ InSection(q)) => ~IsWrite(cur[p].op) /\ ~IsWrite(cur[q].op)
\* what an operation has observed so far is what it would observe on the store as it was when it entered:
\* the operation is atomic at its lock acquisition, which is its linearization point (T18)
AtomicView ==
  \A p \in Procs : InSection(p) =>
     LET op == cur[p].op  seen == Touched(op) \ cur[p].todo IN
     op.k \in {"has", "query", "add", "rm", "list", "count"} => cur[p].acc = seen \cap cur[p].snap
T18 == MutualExclusion /\ AtomicView
=============================================================================
