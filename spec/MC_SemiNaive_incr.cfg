SPECIFICATION Spec
CONSTANTS
  MergeTiming = "eager"
  DoFeedback = "rerun"
  TmpName = "fresh"
  Programs <- ProgramsIncr
INVARIANTS T01 T01i DeltaInv
CHECK_DEADLOCK FALSE
