SPECIFICATION Spec
CONSTANTS
  Nodes <- N3
  Graphs <- AllGraphs3
  DropEdges <- DropAB
INVARIANT T03
CHECK_DEADLOCK FALSE
