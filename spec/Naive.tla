-------------------------------- MODULE Naive --------------------------------
(***************************************************************************)
(* Layer 3 - the naive bottom-up evaluator (engine/naivebottomup.go):      *)
(* per stratum, apply every plain rule to the whole store until nothing    *)
(* new is derived.  (Transforms are outside the scope of property C20.)    *)
(***************************************************************************)
EXTENDS Semantics
CONSTANT Programs
VARIABLES prog, store, todo, cur, phase
vars == <<prog, store, todo, cur, phase>>

Init == prog \in Programs /\ store = {} /\ todo = {} /\ cur = {} /\ phase = "load"
LoadFacts == /\ phase = "load" /\ store' = prog.edb /\ todo' = SCCs(prog.rules) /\ phase' = "next"
             /\ UNCHANGED <<prog, cur>>
BeginStratum == /\ phase = "next" /\ todo # {}
                /\ \E c \in todo : /\ ReadyComp(prog.rules, c, HeadPreds(prog.rules) \ UNION todo)
                                   /\ cur' = {r \in prog.rules : r.h.p \in c}
                                   /\ todo' = todo \ {c}
                /\ phase' = "round" /\ UNCHANGED <<prog, store>>
Round == /\ phase = "round"
         /\ LET new == (UNION {Derive(r, store) : r \in cur}) \ store IN
            /\ store' = store \cup new
            /\ phase' = IF new = {} THEN "next" ELSE "round"
         /\ UNCHANGED <<prog, todo, cur>>
Finish == phase = "next" /\ todo = {} /\ phase' = "done" /\ UNCHANGED <<prog, store, todo, cur>>
Next == LoadFacts \/ BeginStratum \/ Round \/ Finish
Spec == Init /\ [][Next]_vars

\* T20: the naive fixpoint is the stratified model (hence equal to the semi-naive result, T01)
T20 == phase = "done" => store = StratifiedModel(prog.rules, prog.edb)
Sound == store \subseteq StratifiedModel(prog.rules, prog.edb)
=============================================================================
