------------------------------ MODULE Stratifier ------------------------------
(***************************************************************************)
(* Layer 3 - analysis.Stratify as a state machine (analysis/stratification.go):*)
(* Kosaraju's two depth-first passes, the negative-edge-inside-a-component *)
(* test, and the topological sortResult.  Every `for ... range map` of the *)
(* code is a nondeterministic choice here, so TLC explores every iteration *)
(* order the Go runtime may produce.                                       *)
(*                                                                         *)
(* A graph is a function  G \in [Nodes \X Nodes -> {"none","pos","neg"}]   *)
(* (edge p -> q: q is mentioned in the body of a rule for p).              *)
(* DropEdges models a dependency-graph builder that ignores some mentions  *)
(* (the code before the temporal-literal fix): the algorithm then runs on  *)
(* the graph without them while validity is judged on the full graph.      *)
(***************************************************************************)
EXTENDS StratMeaning

CONSTANTS Nodes, Graphs, DropEdges(_)

VARIABLES G,        \* the true dependency graph
          phase,    \* "fwd" | "rev" | "check" | "sort" | "done"
          seen, stack, post,     \* depth-first search state; post = postorder list S
          comp, sccs,            \* component being collected; list of finished components
          order,                 \* sortResult: list of component indexes in evaluation order
          result                 \* <<"ok", layers>> | <<"fail">> | <<"none">>
vars == <<G, phase, seen, stack, post, comp, sccs, order, result>>

H == DropEdges(G)     \* the graph the algorithm sees
Succ(g, n) == {m \in Nodes : g[<<n, m>>] # "none"}
Pred(g, n) == {m \in Nodes : g[<<m, n>>] # "none"}
Last(q) == q[Len(q)]
Front(q) == SubSeq(q, 1, Len(q) - 1)
Frame(n, todo) == [n |-> n, todo |-> todo]

Init == /\ G \in Graphs
        /\ phase = "fwd" /\ seen = {} /\ stack = <<>> /\ post = <<>>
        /\ comp = {} /\ sccs = <<>> /\ order = <<>> /\ result = <<"none">>

\* ---------------------------------------------------------------- forward pass
FwdRoot == /\ phase = "fwd" /\ stack = <<>> /\ seen # Nodes
           /\ \E n \in Nodes \ seen :                       \* for node := range dep
                /\ seen' = seen \cup {n}
                /\ stack' = <<Frame(n, Succ(H, n))>>
           /\ UNCHANGED <<G, phase, post, comp, sccs, order, result>>
FwdStep == /\ phase = "fwd" /\ stack # <<>>
           /\ LET f == Last(stack) IN
              IF f.todo = {}
              THEN /\ stack' = Front(stack) /\ post' = Append(post, f.n) /\ UNCHANGED seen
              ELSE \E e \in f.todo :                        \* for e := range dep[node]
                     IF e \in seen
                     THEN /\ stack' = [stack EXCEPT ![Len(stack)].todo = f.todo \ {e}]
                          /\ UNCHANGED <<seen, post>>
                     ELSE /\ stack' = Append([stack EXCEPT ![Len(stack)].todo = f.todo \ {e}], Frame(e, Succ(H, e)))
                          /\ seen' = seen \cup {e} /\ UNCHANGED post
           /\ UNCHANGED <<G, phase, comp, sccs, order, result>>
FwdDone == /\ phase = "fwd" /\ stack = <<>> /\ seen = Nodes
           /\ phase' = "rev" /\ seen' = {}
           /\ UNCHANGED <<G, stack, post, comp, sccs, order, result>>

\* ---------------------------------------------------------------- reverse pass (on the transpose)
RevPop == /\ phase = "rev" /\ stack = <<>> /\ post # <<>>
          /\ LET top == Last(post) IN
             /\ post' = Front(post)
             /\ IF top \in seen THEN UNCHANGED <<seen, stack, comp>>
                ELSE /\ seen' = seen \cup {top} /\ comp' = {top}
                     /\ stack' = <<Frame(top, Pred(H, top))>>
          /\ UNCHANGED <<G, phase, sccs, order, result>>
RevStep == /\ phase = "rev" /\ stack # <<>>
           /\ LET f == Last(stack) IN
              IF f.todo = {}
              THEN /\ stack' = Front(stack)
                   /\ IF Len(stack) = 1 THEN sccs' = Append(sccs, comp) ELSE UNCHANGED sccs
                   /\ UNCHANGED <<seen, comp>>
              ELSE \E e \in f.todo :
                     IF e \in seen
                     THEN /\ stack' = [stack EXCEPT ![Len(stack)].todo = f.todo \ {e}]
                          /\ UNCHANGED <<seen, comp, sccs>>
                     ELSE /\ stack' = Append([stack EXCEPT ![Len(stack)].todo = f.todo \ {e}], Frame(e, Pred(H, e)))
                          /\ seen' = seen \cup {e} /\ comp' = comp \cup {e} /\ UNCHANGED sccs
           /\ UNCHANGED <<G, phase, post, order, result>>
RevDone == /\ phase = "rev" /\ stack = <<>> /\ post = <<>>
           /\ phase' = "check"
           /\ UNCHANGED <<G, seen, stack, post, comp, sccs, order, result>>

\* ---------------------------------------------------------------- negative edge inside a component
CompOf(n) == CHOOSE i \in DOMAIN sccs : n \in sccs[i]
Check == /\ phase = "check"
         /\ IF \E i \in DOMAIN sccs : \E a \in sccs[i], b \in sccs[i] : H[<<a, b>>] = "neg"
            THEN phase' = "done" /\ result' = <<"fail">> /\ UNCHANGED <<seen, stack>>
            ELSE phase' = "sort" /\ seen' = {} /\ stack' = <<>> /\ UNCHANGED result
         /\ UNCHANGED <<G, post, comp, sccs, order>>

\* ---------------------------------------------------------------- sortResult: DFS over components, roots in index order
CompSucc(i) == {CompOf(m) : m \in UNION {Succ(H, n) : n \in sccs[i]}}
SortRoot == /\ phase = "sort" /\ stack = <<>> /\ seen # DOMAIN sccs
            /\ LET i == CHOOSE k \in (DOMAIN sccs) \ seen : \A j \in (DOMAIN sccs) \ seen : k <= j IN
               /\ seen' = seen \cup {i} /\ stack' = <<Frame(i, CompSucc(i))>>
            /\ UNCHANGED <<G, phase, post, comp, sccs, order, result>>
SortStep == /\ phase = "sort" /\ stack # <<>>
            /\ LET f == Last(stack) IN
               IF f.todo = {}
               THEN /\ stack' = Front(stack) /\ order' = Append(order, f.n) /\ UNCHANGED seen
               ELSE \E e \in f.todo :
                      IF e \in seen
                      THEN /\ stack' = [stack EXCEPT ![Len(stack)].todo = f.todo \ {e}]
                           /\ UNCHANGED <<seen, order>>
                      ELSE /\ stack' = Append([stack EXCEPT ![Len(stack)].todo = f.todo \ {e}], Frame(e, CompSucc(e)))
                           /\ seen' = seen \cup {e} /\ UNCHANGED order
            /\ UNCHANGED <<G, phase, post, comp, sccs, result>>
SortDone == /\ phase = "sort" /\ stack = <<>> /\ seen = DOMAIN sccs
            /\ phase' = "done"
            /\ result' = <<"ok", [k \in DOMAIN order |-> sccs[order[k]]]>>
            /\ UNCHANGED <<G, seen, stack, post, comp, sccs, order>>

Next == FwdRoot \/ FwdStep \/ FwdDone \/ RevPop \/ RevStep \/ RevDone \/ Check \/ SortRoot \/ SortStep \/ SortDone
Spec == Init /\ [][Next]_vars

\* ---------------------------------------------------------------- meaning: see StratMeaning.tla (judged on the TRUE graph G)
NegCycle(g) == NegCycleOn(g, Nodes)
IsStratification(layers, g) == IsStratificationOn(layers, g, Nodes)

\* T03: every run ends with a valid stratification, or with failure exactly when a cycle has a negative edge
T03 == phase = "done" =>
         IF NegCycle(G) THEN result = <<"fail">>
         ELSE result[1] = "ok" /\ IsStratification(result[2], G)
=============================================================================
