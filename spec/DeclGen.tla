-------------------------------- MODULE DeclGen --------------------------------
(***************************************************************************)
(* Front-end family "declarations" (C10): a declaration of a predicate of  *)
(* arity 0..2 with a descriptor list and bound rows drawn from well- and   *)
(* ill-formed pieces, together with one use of the predicate (a fact, a    *)
(* rule for it, a positive / negated body atom, a field access).  The      *)
(* pieces are source text; the harness assembles                            *)
(*    Decl p(X0, .., Xn-1) descr [D..] bound [T, .., T].  <use>            *)
(* and the whole goes through parse -> analysis with bounds checking ->     *)
(* evaluation: every stage must return a value or an error.                *)
(***************************************************************************)
EXTENDS Naturals, Sequences, FiniteSets, TLC, Json
VARIABLE c
Descrs == { "", "doc(\"d\")", "mode(\"+\")", "mode(\"+\", \"-\")", "mode(\"+\", \"-\", \"+\")", "mode(\"?\")", "mode()",
            "reflects(/foo)", "reflects()", "deferred()", "external()", "external(), mode(\"+\", \"-\")",
            "fundep([X0], [X1])", "fundep([X0, X1, X1, X1], [X1]), merge([X1], 'mp')", "fundep([X0], [X1]), merge([X1], 'mp')",
            "fundep([], []), merge([], 'mp')", "merge([X0], 'nosuch')", "arg(X0, \"first\")", "arg(Z, \"unknown\")", "temporal()", "synthetic()" }
Types == { "", "/number", "/any", "/nosuch", "\"s\"", "1",
           "fn:Struct()", "fn:Struct(/a)", "fn:Struct(/a, /number)", "fn:Struct(fn:opt())", "fn:Struct(fn:opt(/a))", "fn:Struct(fn:opt(/a, /number))",
           "fn:Struct(/a, /number, fn:opt(/b))", "fn:Struct(/a, /number, fn:opt(/b, /string, /c))",
           "fn:Map()", "fn:Map(/number)", "fn:Map(/number, /string)", "fn:List()", "fn:List(/number, /number)", "fn:List(/number)",
           "fn:Pair(/number)", "fn:Pair(/number, /string)", "fn:Tuple()", "fn:Tuple(/number)", "fn:Union()", "fn:Union(/number)",
           "fn:Singleton()", "fn:Singleton(1)", "fn:Fun()", "fn:Fun(/number)", "fn:opt(/a, /number)", "fn:Rel(/number)", "fn:nosuch(/number)" }
Uses == { "none", "fact", "fact_struct", "head", "body", "negbody", "field", "pair", "member" }
\* optionally the unit is a named package (string bounds are then resolved as predicate references)
Pkgs == {"", "Package pk!", "Package pk! Use other!"}
Cases == {[kind |-> "decl", arity |-> n, descr |-> d, ty |-> t, ty2 |-> t2, use |-> u, pkg |-> ""] :
             n \in 0..2, d \in Descrs, t \in Types, t2 \in {"", "/number"}, u \in Uses}
         \cup {[kind |-> "decl", arity |-> n, descr |-> d, ty |-> t, ty2 |-> "", use |-> u, pkg |-> k] :
             n \in 1..2, d \in {"", "mode(\"+\")", "reflects(/foo)"}, t \in Types \cup {"\"other.colour\"", "\"colour\"", "\"\"", "\".\""}, u \in {"none", "fact", "body"}, k \in Pkgs \ {""}}
Init == c = <<>>
Next == c = <<>> /\ c' \in Cases
Emit == c # <<>> => PrintT(<<"CASE", ToJson(c)>>)
=============================================================================
