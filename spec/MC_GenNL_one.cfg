SPECIFICATION Spec
CONSTANTS
  Heads <- NLHeads
  BodyLits <- NLLits
  MaxBody = 3
  Transforms <- NLTransforms
  MaxRules = 1
  FixedRules <- NLFixed
  EdbChoices <- NLEdbs
  ExtraRules = {}
  Randomized = FALSE
  Keep <- KeepSafe
INVARIANT Emit
CHECK_DEADLOCK FALSE
