SPECIFICATION Spec
CONSTANTS
  MergeTiming = "eager"
  DoFeedback = "none"
  TmpName = "fresh"
  Programs <- ProgramsSmall
INVARIANTS T01
CHECK_DEADLOCK FALSE
