------------------------------ MODULE VocabLimit ------------------------------
(* Limit family (DESIGN.md C17): programs that generate unboundedly many facts through
   arithmetic or list construction, bounded variants of them, a quadratic one-round blow-up,
   and aggregation above a diverging stratum.                                             *)
EXTENDS Semantics
X == Var("X")
Y == Var("Y")
Z == Var("Z")
A(p, args) == [p |-> p, a |-> args]
N(i) == Num(i)
R(h, b) == [h |-> h, b |-> b, t |-> <<"none">>]
LimitRules ==
  { R(A("n", <<Y>>), <<<<"pos", A("n", <<X>>)>>, <<"eq", Y, Ap("fn:plus", <<X, N(1)>>)>>>>),
    R(A("n", <<Y>>), <<<<"pos", A("n", <<X>>)>>, <<"lt", X, N(4)>>, <<"eq", Y, Ap("fn:plus", <<X, N(1)>>)>>>>),
    R(A("m", <<Y>>), <<<<"pos", A("n", <<X>>)>>, <<"eq", Y, Ap("fn:mult", <<X, N(2)>>)>>>>),
    R(A("n", <<Y>>), <<<<"pos", A("m", <<X>>)>>, <<"eq", Y, Ap("fn:plus", <<X, N(1)>>)>>>>),
    R(A("l", <<Z>>), <<<<"pos", A("l", <<X>>)>>, <<"eq", Z, Ap("fn:list:cons", <<N(1), X>>)>>>>),
    R(A("l", <<Z>>), <<<<"pos", A("l", <<X>>)>>, <<"bi", ":match_cons", <<X, Var("H"), Z>>>>>>),
    R(A("p", <<X, Y>>), <<<<"pos", A("n", <<X>>)>>, <<"pos", A("n", <<Y>>)>>>>),
    [h |-> A("k", <<Var("V")>>), b |-> <<<<"pos", A("n", <<X>>)>>>>, t |-> <<"let", <<<<"V", Ap("fn:plus", <<X, N(1)>>)>>>>>>],
    R(A("n", <<X>>), <<<<"pos", A("k", <<X>>)>>>>),
    [h |-> A("cnt", <<Var("C")>>), b |-> <<<<"pos", A("n", <<X>>)>>>>, t |-> <<"do", <<>>, <<<<"C", "fn:count", <<>>>>>>>>],
    R(A("q", <<X>>), <<<<"pos", A("n", <<X>>)>>, <<"neg", A("m", <<X>>)>>>>),
    \* an aggregate whose head predicate is extended by a recursion of the same stratum (one new fact per round)
    [h |-> A("n", <<Var("C")>>), b |-> <<<<"pos", A("m", <<X>>)>>>>, t |-> <<"do", <<>>, <<<<"C", "fn:count", <<>>>>>>>>],
    [h |-> A("k", <<Var("C")>>), b |-> <<<<"pos", A("l", <<X>>)>>>>, t |-> <<"do", <<>>, <<<<"C", "fn:count", <<>>>>>>>>] }
LimitEdbs ==
  { {A("n", <<N(0)>>)}, {A("n", <<N(0)>>), A("n", <<N(10)>>)}, {A("n", <<N(1)>>), A("l", <<List(<<>>)>>)},
    {A("l", <<List(<<N(2), N(3)>>)>>), A("l", <<List(<<>>)>>)}, {A("m", <<N(3)>>)} }
\* bulk family: small programs over a base-fact set far larger than any bound the limit justifies; the number of
\* created facts must not grow with it (copy, filter, join, two-step rules over b(1..BulkN))
BulkRules ==
  { R(A("c", <<X>>), <<<<"pos", A("b", <<X>>)>>>>),
    R(A("c", <<X>>), <<<<"pos", A("b", <<X>>)>>, <<"ne", X, N(4)>>>>),
    R(A("c", <<X>>), <<<<"ne", X, N(4)>>, <<"pos", A("b", <<X>>)>>>>),
    R(A("d", <<X>>), <<<<"pos", A("c", <<X>>)>>>>),
    R(A("d", <<X>>), <<<<"pos", A("b", <<X>>)>>, <<"pos", A("c", <<X>>)>>>>),
    R(A("c", <<Y>>), <<<<"pos", A("b", <<X>>)>>, <<"eq", Y, Ap("fn:plus", <<X, N(1000)>>)>>>>),
    R(A("e2", <<X, Y>>), <<<<"pos", A("b", <<X>>)>>, <<"pos", A("s", <<Y>>)>>>>),
    [h |-> A("k", <<Var("V")>>), b |-> <<<<"pos", A("b", <<X>>)>>>>, t |-> <<"let", <<<<"V", Ap("fn:plus", <<X, N(1000)>>)>>>>>>],
    [h |-> A("cnt", <<Var("C")>>), b |-> <<<<"pos", A("b", <<X>>)>>>>, t |-> <<"do", <<>>, <<<<"C", "fn:count", <<>>>>>>>>],
    \* a built-in predicate used as a generator: one solution per element of one long stored list
    R(A("c", <<X>>), <<<<"pos", A("ls", <<Var("L")>>)>>, <<"bi", ":list:member", <<X, Var("L")>>>>>>),
    R(A("e2", <<X, Y>>), <<<<"pos", A("ls", <<Var("L")>>)>>, <<"bi", ":list:member", <<X, Var("L")>>>>, <<"pos", A("s", <<Y>>)>>>>) }
BulkN == 120
BulkEdbs == { {A("b", <<N(i)>>) : i \in 1..BulkN} \cup {A("s", <<N(1)>>), A("s", <<N(2)>>), A("ls", <<List([i \in 1..BulkN |-> N(i)])>>)} }
KeepAll(r) == TRUE
=============================================================================
