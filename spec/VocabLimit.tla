------------------------------ MODULE VocabLimit ------------------------------
(* Limit family (DESIGN.md C17): programs that generate unboundedly many facts through
   arithmetic or list construction, bounded variants of them, a quadratic one-round blow-up,
   and aggregation above a diverging stratum.                                             *)
EXTENDS Semantics
X == Var("X")
Y == Var("Y")
Z == Var("Z")
A(p, args) == [p |-> p, a |-> args]
N(i) == Num(i)
R(h, b) == [h |-> h, b |-> b, t |-> <<"none">>]
LimitRules ==
  { R(A("n", <<Y>>), <<<<"pos", A("n", <<X>>)>>, <<"eq", Y, Ap("fn:plus", <<X, N(1)>>)>>>>),
    R(A("n", <<Y>>), <<<<"pos", A("n", <<X>>)>>, <<"lt", X, N(4)>>, <<"eq", Y, Ap("fn:plus", <<X, N(1)>>)>>>>),
    R(A("m", <<Y>>), <<<<"pos", A("n", <<X>>)>>, <<"eq", Y, Ap("fn:mult", <<X, N(2)>>)>>>>),
    R(A("n", <<Y>>), <<<<"pos", A("m", <<X>>)>>, <<"eq", Y, Ap("fn:plus", <<X, N(1)>>)>>>>),
    R(A("l", <<Z>>), <<<<"pos", A("l", <<X>>)>>, <<"eq", Z, Ap("fn:list:cons", <<N(1), X>>)>>>>),
    R(A("l", <<Z>>), <<<<"pos", A("l", <<X>>)>>, <<"bi", ":match_cons", <<X, Var("H"), Z>>>>>>),
    R(A("p", <<X, Y>>), <<<<"pos", A("n", <<X>>)>>, <<"pos", A("n", <<Y>>)>>>>),
    [h |-> A("k", <<Var("V")>>), b |-> <<<<"pos", A("n", <<X>>)>>>>, t |-> <<"let", <<<<"V", Ap("fn:plus", <<X, N(1)>>)>>>>>>],
    R(A("n", <<X>>), <<<<"pos", A("k", <<X>>)>>>>),
    [h |-> A("cnt", <<Var("C")>>), b |-> <<<<"pos", A("n", <<X>>)>>>>, t |-> <<"do", <<>>, <<<<"C", "fn:count", <<>>>>>>>>],
    R(A("q", <<X>>), <<<<"pos", A("n", <<X>>)>>, <<"neg", A("m", <<X>>)>>>>) }
LimitEdbs ==
  { {A("n", <<N(0)>>)}, {A("n", <<N(0)>>), A("n", <<N(10)>>)}, {A("n", <<N(1)>>), A("l", <<List(<<>>)>>)},
    {A("l", <<List(<<N(2), N(3)>>)>>), A("l", <<List(<<>>)>>)}, {A("m", <<N(3)>>)} }
KeepAll(r) == TRUE
=============================================================================
