-------------------------------- MODULE Types --------------------------------
(***************************************************************************)
(* Layer 2 - closed first-order type expressions, their denotation over a  *)
(* witness universe, and the sound subtype relation (property C12).        *)
(*   <<"ty", "/any"|"/number"|"/string"|"/name"|"/float64"|"/time"|        *)
(*          "/duration">>                                     base types   *)
(*   <<"pre", parts>>          names strictly below the prefix             *)
(*   <<"single", value>>       exactly that constant                       *)
(*   <<"union", <<t...>>>>  <<"tpair", a, b>>  <<"tlist", a>>  <<"tmap", k, v>>*)
(*   <<"tstruct", << <<field parts, type, optional?>> ... >>>>             *)
(*   <<"ttagged", field, << <<tag, struct fields>> ... >>>>                 *)
(* Name constants of this family carry their parts: <<"cn", <<"foo","a">>>>.*)
(***************************************************************************)
EXTENDS Values
IsStrictPrefix(p, n) == Len(p) < Len(n) /\ SubSeq(n, 1, Len(p)) = p
RECURSIVE Member(_, _)
Member(t, c) ==
  CASE t[1] = "ty" -> CASE t[2] = "/any" -> TRUE
                        [] t[2] = "/number" -> c[1] = "n"
                        [] t[2] = "/string" -> c[1] = "s"
                        [] t[2] = "/name" -> c[1] = "cn"
                        [] t[2] = "/float64" -> c[1] = "f"
                        [] t[2] = "/time" -> c[1] = "t"          \* all time instants (not the names below /time)
                        [] t[2] = "/duration" -> c[1] = "d"
                        [] OTHER -> FALSE
    [] t[1] = "pre" -> c[1] = "cn" /\ IsStrictPrefix(t[2], c[2])
    [] t[1] = "single" -> c = t[2]
    [] t[1] = "union" -> \E i \in DOMAIN t[2] : Member(t[2][i], c)
    [] t[1] = "tpair" -> c[1] = "pair" /\ Member(t[2], c[2]) /\ Member(t[3], c[3])
    [] t[1] = "tlist" -> c[1] = "list" /\ \A i \in DOMAIN c[2] : Member(t[2], c[2][i])
    [] t[1] = "tmap" -> c[1] = "map" /\ \A i \in DOMAIN c[2] : Member(t[2], c[2][i][1]) /\ Member(t[3], c[2][i][2])
    [] t[1] = "tstruct" ->
         /\ c[1] = "struct"
         /\ \A i \in DOMAIN c[2] : \E j \in DOMAIN t[2] : <<t[2][j][1]>> = c[2][i][1][2] /\ Member(t[2][j][2], c[2][i][2])
         /\ \A j \in DOMAIN t[2] : t[2][j][3] \/ \E i \in DOMAIN c[2] : c[2][i][1][2] = <<t[2][j][1]>>
    \* <<"ttagged", field, << <<tag, fields>> ... >>>>: a struct whose field `field` holds the name /tag of ONE variant and
    \* whose other fields are exactly that variant's (fn:TaggedUnion = the union of its variants' structs, each with the tag)
    [] t[1] = "ttagged" ->
         \E i \in DOMAIN t[3] : Member(<<"tstruct", <<<<t[2], <<"single", <<"cn", <<t[3][i][1]>>>>>>, FALSE>>>> \o t[3][i][2]>>, c)
    [] OTHER -> FALSE
Members(t, U) == {c \in U : Member(t, c)}
Sub(s, t, U) == Members(s, U) \subseteq Members(t, U)
=============================================================================
