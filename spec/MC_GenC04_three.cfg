SPECIFICATION Spec
CONSTANTS
  Heads <- C04Heads3
  BodyLits <- C04Lits
  MaxBody = 3
  Transforms <- C04None
  MaxRules = 1
  FixedRules = {}
  EdbChoices <- C04Edbs
  ExtraRules = {}
  Randomized = FALSE
  Keep <- KeepAll
INVARIANT Emit
CHECK_DEADLOCK FALSE
