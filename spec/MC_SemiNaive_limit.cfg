SPECIFICATION Spec
CONSTANTS
  MergeTiming = "eager"
  DoFeedback = "rerun"
  TmpName = "fresh"
  Programs <- ProgramsLimit
INVARIANTS T17 T01 Sound
CHECK_DEADLOCK FALSE
