------------------------------- MODULE VocabAgg -------------------------------
(* Aggregation family (DESIGN.md C02): one or more do-transform rules per head, single- and
   multi-atom bodies, group keys of 0/1/2 variables, reducers count/sum/min/max/avg/
   collect_distinct, bodies over EDB and over a recursive IDB predicate of a lower stratum. *)
EXTENDS Semantics
X == Var("X")
Y == Var("Y")
Z == Var("Z")
A(p, args) == [p |-> p, a |-> args]
N(i) == Num(i)
\* lower stratum: t = transitive closure of e
TC == { [h |-> A("t", <<X, Y>>), b |-> <<<<"pos", A("e", <<X, Y>>)>>>>, t |-> <<"none">>],
        [h |-> A("t", <<X, Z>>), b |-> <<<<"pos", A("t", <<X, Y>>)>>, <<"pos", A("e", <<Y, Z>>)>>>>, t |-> <<"none">>] }
AggBodies ==
  { <<<<"pos", A("e", <<X, Y>>)>>>>,
    <<<<"pos", A("t", <<X, Y>>)>>>>,
    <<<<"pos", A("e", <<X, Y>>)>>, <<"pos", A("f", <<X>>)>>>>,
    <<<<"pos", A("e", <<X, Y>>)>>, <<"pos", A("f", <<Y>>)>>>>,
    <<<<"pos", A("t", <<X, Y>>)>>, <<"pos", A("f", <<Y>>)>>>>,
    <<<<"pos", A("e", <<X, Y>>)>>, <<"ne", X, Y>>>>,
    <<<<"pos", A("e", <<X, Y>>)>>, <<"neg", A("f", <<Y>>)>>>> }
AggKeys == { <<>>, <<"X">>, <<"Y">>, <<"X", "Y">> }
AggStmts ==
  { <<<<"N", "fn:count", <<>>>>>>,
    <<<<"N", "fn:sum", <<Y>>>>>>,
    <<<<"N", "fn:min", <<Y>>>>>>,
    <<<<"N", "fn:max", <<X>>>>>>,
    <<<<"N", "fn:avg", <<Y>>>>>>,
    <<<<"N", "fn:collect_distinct", <<Y>>>>>>,
    <<<<"N", "fn:count", <<>>>>, <<"M", "fn:sum", <<X>>>>>>,
    <<<<"N", "fn:count", <<>>>>, <<"M", "fn:plus", <<Var("N"), N(1)>>>>>> }
AggHead(key, stmts) ==
  A("agg", [i \in 1..Len(key) |-> Var(key[i])] \o [i \in 1..Len(stmts) |-> Var(stmts[i][1])])
\* bodies that define a further variable Z by an equality, written in either orientation (Z = expr, expr = Z, 4 = Z),
\* with Z as group key or reducer argument
EqBodies ==
  { <<<<"pos", A("e", <<X, Y>>)>>, <<"eq", Z, Ap("fn:plus", <<Y, N(1)>>)>>>>,
    <<<<"pos", A("e", <<X, Y>>)>>, <<"eq", Ap("fn:plus", <<Y, N(1)>>), Z>>>>,
    <<<<"eq", Ap("fn:mult", <<X, Y>>), Z>>, <<"pos", A("e", <<X, Y>>)>>>>,
    <<<<"pos", A("e", <<X, Y>>)>>, <<"eq", N(4), Z>>>>,
    <<<<"pos", A("e", <<X, Y>>)>>, <<"pos", A("f", <<X>>)>>, <<"eq", Ap("fn:minus", <<Y, X>>), Z>>>> }
EqKeys == { <<>>, <<"X">>, <<"Z">>, <<"X", "Z">> }
EqStmts ==
  { <<<<"N", "fn:count", <<>>>>>>,
    <<<<"N", "fn:sum", <<Z>>>>>>,
    <<<<"N", "fn:max", <<Z>>>>>>,
    <<<<"N", "fn:collect_distinct", <<Z>>>>>>,
    <<<<"N", "fn:count", <<>>>>, <<"M", "fn:min", <<Z>>>>>> }
AggRules == {[h |-> AggHead(k, st), b |-> bd, t |-> <<"do", k, st>>] : bd \in AggBodies, k \in AggKeys, st \in AggStmts}
            \cup {[h |-> AggHead(k, st), b |-> bd, t |-> <<"do", k, st>>] : bd \in EqBodies, k \in EqKeys, st \in EqStmts}
\* a plain rule that reads an aggregate in a higher stratum, and plain rules for the same head
Readers == { [h |-> A("big", <<X>>), b |-> <<<<"pos", A("agg", <<X, Var("N")>>)>>, <<"gt", Var("N"), N(1)>>>>, t |-> <<"none">>],
             [h |-> A("agg", <<X, Y>>), b |-> <<<<"pos", A("e", <<X, Y>>)>>, <<"pos", A("f", <<X>>)>>>>, t |-> <<"none">>],
             [h |-> A("agg", <<X, Var("N")>>), b |-> <<<<"pos", A("agg", <<Y, Var("N")>>)>>, <<"pos", A("e", <<Y, X>>)>>>>, t |-> <<"none">>] }
AggEdbs ==
  { { A("e", <<N(1), N(2)>>), A("e", <<N(2), N(3)>>), A("e", <<N(1), N(3)>>), A("e", <<N(3), N(3)>>), A("f", <<N(1)>>), A("f", <<N(3)>>) },
    { A("e", <<N(1), N(2)>>), A("e", <<N(2), N(1)>>), A("e", <<N(4), N(5)>>), A("f", <<N(2)>>), A("f", <<N(5)>>) },
    { A("e", <<N(2), N(2)>>), A("f", <<N(7)>>) },
    { A("f", <<N(1)>>) } }
KeepAll(r) == TRUE
=============================================================================
