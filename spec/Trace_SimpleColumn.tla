-------------------------- MODULE Trace_SimpleColumn --------------------------
(***************************************************************************)
(* Direction B for C19: each line records one save/reload of a fact store  *)
(* by the real code: the facts written, what ReadInto produced, what the   *)
(* lazy file-backed store answered to pattern queries, and whether two     *)
(* deterministic writes of the same set gave equal bytes.  Judged by the   *)
(* set specification (FactStore!QueryReply) and T19 of SimpleColumn.tla.   *)
(***************************************************************************)
EXTENDS FactStore, Json, IOUtils
Trace == ndJsonDeserialize(IOEnv.TRACE)
VARIABLE l
SetOf(q) == {q[i] : i \in DOMAIN q}
NoDup(q) == \A i, j \in DOMAIN q : i # j => q[i] # q[j]
Verdicts(c) ==
  LET S == SetOf(c.facts) IN
  (IF c.write_err # "" THEN {"WRITE_FAILED"} ELSE {})
  \cup (IF c.write_err = "" /\ (c.reread_err # "" \/ SetOf(c.reread) # S) THEN {"REREAD_DIFFERS"} ELSE {})
  \cup (IF c.write_err = "" /\ \E i \in DOMAIN c.lazy :
            c.lazy[i].err # "" \/ SetOf(c.lazy[i].r) # QueryReply({}, S, c.lazy[i].pat) \/ ~NoDup(c.lazy[i].r)
        THEN {"LAZY_DIFFERS"} ELSE {})
  \cup (IF c.write_err = "" /\ c.det /\ ~c.det_equal THEN {"BYTES_DEPEND_ON_ORDER"} ELSE {})
Init == l = 1
Next == /\ l <= Len(Trace) /\ l' = l + 1
        /\ \A v \in Verdicts(Trace[l]) : PrintT(<<"MISMATCH", Trace[l].id, 1, v, "null">>)
        /\ PrintT(<<"CLASS", Trace[l].id, "sc">>)
Accepted == l = Len(Trace) + 1 => PrintT(<<"CONSUMED", Len(Trace)>>)
=============================================================================
