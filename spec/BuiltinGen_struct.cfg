INIT Init
NEXT Next
CONSTANT Mode = "struct"
INVARIANTS Emit T07
CHECK_DEADLOCK FALSE
