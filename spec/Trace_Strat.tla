----------------------------- MODULE Trace_Strat ------------------------------
(***************************************************************************)
(* Direction B for C03: each line is a labelled dependency graph, realised *)
(* as a program in some syntactic style, with every distinct result that   *)
(* analysis.Stratify returned over repeated runs (Go randomises map        *)
(* iteration).  Each result is judged by StratMeaning: valid layers, or    *)
(* failure exactly when a cycle has a negative edge.                       *)
(***************************************************************************)
EXTENDS StratMeaning, Json, IOUtils
Trace == ndJsonDeserialize(IOEnv.TRACE)
VARIABLE l

SetOf(q) == {q[i] : i \in DOMAIN q}
NodesOf(c) == SetOf(c.nodes)
Idx(c, n) == CHOOSE i \in DOMAIN c.nodes : c.nodes[i] = n
GraphOf(c) == [e \in NodesOf(c) \X NodesOf(c) |-> c.edges[Idx(c, e[1])][Idx(c, e[2])]]
LayersOf(r) == [i \in DOMAIN r.layers |-> SetOf(r.layers[i])]

Verdict(c, r) ==
  LET g == GraphOf(c) IN
  IF r.stage = "panic" THEN "PANIC"
  ELSE IF r.stage # "stratify" THEN "fine"     \* rejected before stratification: nothing to judge
  ELSE IF NegCycleOn(g, NodesOf(c))
  THEN (IF r.ok THEN "ACCEPTED_NEGATIVE_CYCLE" ELSE "fine")
  ELSE IF ~r.ok THEN "SPURIOUS_FAILURE"
  ELSE IF ~IsStratificationOn(LayersOf(r), g, NodesOf(c)) THEN "INVALID_LAYERS"
  ELSE IF ~r.map_ok THEN "MAP_DISAGREES_WITH_LAYERS"
  ELSE "fine"

Init == l = 1
Next == /\ l <= Len(Trace) /\ l' = l + 1
        /\ LET c == Trace[l] IN
           /\ PrintT(<<"CLASS", c.id, IF NegCycleOn(GraphOf(c), NodesOf(c)) THEN "negcycle" ELSE "stratifiable">>)
           /\ \A i \in DOMAIN c.results :
                Verdict(c, c.results[i]) = "fine" \/ PrintT(<<"MISMATCH", c.id, i, Verdict(c, c.results[i]), "null">>)
Accepted == l = Len(Trace) + 1 => PrintT(<<"CONSUMED", Len(Trace)>>)
=============================================================================
