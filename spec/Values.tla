------------------------------- MODULE Values -------------------------------
(***************************************************************************)
(* Layer 0 - the Mangle data model (docs/spec_datamodel.md).               *)
(* Every constant is a tagged tuple <<kind, payload...>> so that TLC never *)
(* compares values of incomparable types: the tag (a string) is compared   *)
(* first.  The same shapes are produced by the Go harness (package mgjson) *)
(* as JSON arrays, so a value crosses the TLC/Go boundary unchanged.       *)
(*                                                                         *)
(*   <<"n", i>>          number (i fits TLC's 32-bit integers)            *)
(*   <<"s", str>>        string        <<"c", str>>  name constant "/a/b" *)
(*   <<"y", str>>        bytes         <<"f", tok>>  float (opaque token)  *)
(*   <<"t", i>>          time (timeline index)   <<"d", i>> duration       *)
(*   <<"pair", a, b>>    pair          <<"list", seq>>  list               *)
(*   <<"map", seq of <<k,v>>>>   <<"struct", seq of <<k,v>>>>              *)
(* Terms add  <<"v", name>> (variable, "_" is the wildcard) and            *)
(*            <<"ap", fn, <<args>>>> (function application).               *)
(***************************************************************************)
EXTENDS Integers, Sequences, FiniteSets, TLC

Num(n)  == <<"n", n>>
Str(s)  == <<"s", s>>
Nm(s)   == <<"c", s>>
Tm(i)   == <<"t", i>>
Du(i)   == <<"d", i>>
Pair(a, b) == <<"pair", a, b>>
List(q) == <<"list", q>>
MapV(q) == <<"map", q>>
StructV(q) == <<"struct", q>>
Var(x)  == <<"v", x>>
Ap(f, args) == <<"ap", f, args>>

ERR == <<"err">>
Tag(v)   == v[1]
IsNum(v) == v[1] = "n"
IsStr(v) == v[1] = "s"
IsName(v) == v[1] = "c"
IsList(v) == v[1] = "list"
IsPair(v) == v[1] = "pair"
IsMap(v) == v[1] = "map"
IsStruct(v) == v[1] = "struct"
IsTime(v) == v[1] = "t"
IsDur(v) == v[1] = "d"
IsErr(v) == v[1] = "err"
IsVar(t) == t[1] = "v"
IsAp(t)  == t[1] = "ap"
IsWild(t) == t[1] = "v" /\ t[2] = "_"

Ran(f) == {f[i] : i \in DOMAIN f}
MaxOf(S) == CHOOSE x \in S : \A y \in S : y <= x
MinOf(S) == CHOOSE x \in S : \A y \in S : x <= y

\* Order-free reading of maps/structs: the set of key/value pairs.
Entries(v) == Ran(v[2])

\* Structural normal form used when two values that may contain maps are compared:
\* entry sequences become sets (last binding of a key wins is NOT modelled; duplicate
\* keys are outside the documented input domain).
RECURSIVE Norm(_)
Norm(v) ==
  CASE v[1] = "pair" -> <<"pair", Norm(v[2]), Norm(v[3])>>
    [] v[1] = "list" -> <<"list", [i \in DOMAIN v[2] |-> Norm(v[2][i])]>>
    [] v[1] \in {"map", "struct"} -> <<v[1], {<<Norm(e[1]), Norm(e[2])>> : e \in Ran(v[2])}>>
    [] OTHER -> v

=============================================================================
