------------------------------ MODULE MC_GenNL ------------------------------
(* Scope NL (non-linear recursion) as an instance of the program grammar machine. *)
EXTENDS ProgGen, VocabNL
=============================================================================
