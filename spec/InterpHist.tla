------------------------------ MODULE InterpHist ------------------------------
(* Direction A for C16: Interpreter.tla as a machine whose behaviours are command histories;
   T16: the visible state is a function of the live definitions (checked as: replaying only the
   live definitions into a fresh machine gives the same state).                               *)
EXTENDS Interpreter, Json, SequencesExt
CONSTANTS Lib, TextIds, FileSets, MaxLen, Randomized
VARIABLES h, frags, buffer
Cmds == {[ev |-> "define", text |-> t] : t \in TextIds} \cup {[ev |-> "load", files |-> SetToSeq(fs)] : fs \in FileSets} \cup {[ev |-> "pop"]}
Apply(c, f, b) == CASE c.ev = "define" -> DefineEffect(Lib, f, b, c.text)
                    [] c.ev = "load" -> LoadEffect(Lib, f, b, Ran(c.files))
                    [] OTHER -> PopEffect(f, b)
Init == h = <<>> /\ frags = <<>> /\ buffer = <<>>
Do == /\ Len(h) < MaxLen
      /\ \E c \in (IF Randomized THEN {RandomElement({x \in Cmds : Len(h) >= 0})} ELSE Cmds) :
           /\ h' = Append(h, c)
           /\ frags' = Apply(c, frags, buffer)[1] /\ buffer' = Apply(c, frags, buffer)[2]
Next == Do
\* fresh replay of the live definitions only
RECURSIVE ReplayLoads(_, _)
ReplayLoads(fs, acc) == IF fs = <<>> THEN acc ELSE ReplayLoads(Tail(fs), LoadEffect(Lib, acc[1], acc[2], Head(fs)))
RECURSIVE ReplayDefs(_, _)
ReplayDefs(ts, acc) == IF ts = <<>> THEN acc ELSE ReplayDefs(Tail(ts), DefineEffect(Lib, acc[1], acc[2], Head(ts)))
T16 == ReplayDefs(buffer, ReplayLoads(frags, <<<<>>, <<>>>>)) = <<frags, buffer>>
EmitLib == h = <<>> => PrintT(<<"LIB", ToJson(Lib)>>)
Emit == (Len(h) > 0 /\ (~Randomized \/ Len(h) = MaxLen)) => PrintT(<<"CASE", ToJson([cmds |-> h])>>)
=============================================================================
