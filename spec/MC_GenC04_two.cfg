SPECIFICATION Spec
CONSTANTS
  Heads <- C04Heads
  BodyLits <- C04Lits
  MaxBody = 2
  Transforms <- C04Transforms
  MaxRules = 1
  FixedRules = {}
  EdbChoices <- C04Edbs
  ExtraRules = {}
  Randomized = FALSE
  Keep <- KeepAll
INVARIANT Emit
CHECK_DEADLOCK FALSE
