------------------------------ MODULE FloatText ------------------------------
(***************************************************************************)
(* Layer 0 - the text of floating-point constants (property C09).          *)
(* A finite float is taken in its shortest decimal form                    *)
(*     v = [neg, ds, e]   meaning  (-1)^neg * 0.d1 d2 ... dk * 10^e        *)
(* with d1 # 0 and dk # 0 (ds = <<>> is zero).  The printer of the library *)
(* (ast.FormatFloat64: positional notation, ".0" appended to an integral   *)
(* value so that it does not read back as a number) is PrintF below; the    *)
(* lexer's FLOAT token                                                     *)
(*     '-'? DIGIT+ '.' DIGIT+ EXP?   |   '-'? '.' DIGIT+ EXP?              *)
(* is the recogniser IsFloatToken, and Denote reads a token back to its    *)
(* decimal value.  T09f: every printed float is one FLOAT token denoting   *)
(* the value that was printed.                                             *)
(* Style selects the design: "positional" is the code; "general" is the    *)
(* tempting variant (shortest of positional and exponent notation, still   *)
(* with ".0" appended when there is no point) - its counterexample is      *)
(* 1e+06.0.  Characters are one-character strings.                         *)
(***************************************************************************)
EXTENDS Integers, Sequences, FiniteSets, TLC
CONSTANT Style

DigitChar == <<"0", "1", "2", "3", "4", "5", "6", "7", "8", "9">>
Ch(d) == DigitChar[d + 1]
IsDigit(c) == \E d \in 0..9 : Ch(d) = c
Val(c) == CHOOSE d \in 0..9 : Ch(d) = c
Zeros(n) == [i \in 1..n |-> "0"]
Chars(ds) == [i \in DOMAIN ds |-> Ch(ds[i])]

WellFormed(v) == v.ds = <<>> \/ (v.ds[1] # 0 /\ v.ds[Len(v.ds)] # 0)

\* digits of a natural number, most significant first (for the exponent part)
RECURSIVE NatChars(_)
NatChars(n) == IF n < 10 THEN <<Ch(n)>> ELSE NatChars(n \div 10) \o <<Ch(n % 10)>>

Positional(v) ==
  LET k == Len(v.ds)  cs == Chars(v.ds) IN
  IF k = 0 THEN <<"0", ".", "0">>
  ELSE IF v.e <= 0 THEN <<"0", ".">> \o Zeros(-v.e) \o cs
  ELSE IF v.e >= k THEN cs \o Zeros(v.e - k) \o <<".", "0">>
  ELSE SubSeq(cs, 1, v.e) \o <<".">> \o SubSeq(cs, v.e + 1, k)

\* strconv's %e with the shortest digits: d.ddde+XX (at least two exponent digits)
Exponent(v) ==
  LET k == Len(v.ds)  cs == Chars(v.ds)  x == v.e - 1
      mant == IF k = 1 THEN <<cs[1]>> ELSE <<cs[1], ".">> \o SubSeq(cs, 2, k)
      ax == IF x < 0 THEN -x ELSE x
      xs == IF ax < 10 THEN <<"0">> \o NatChars(ax) ELSE NatChars(ax) IN
  mant \o <<"e", IF x < 0 THEN "-" ELSE "+">> \o xs
HasPoint(cs) == \E i \in DOMAIN cs : cs[i] = "."
General(v) ==
  LET x == v.e - 1
      body == IF Len(v.ds) = 0 THEN <<"0">>
              ELSE IF x < -4 \/ x >= 21 THEN Exponent(v)
              ELSE LET p == Positional(v) IN   \* %g drops a trailing ".0"
                   IF Len(p) >= 2 /\ p[Len(p)] = "0" /\ p[Len(p) - 1] = "." /\ v.e >= Len(v.ds) THEN SubSeq(p, 1, Len(p) - 2) ELSE p IN
  IF HasPoint(body) THEN body ELSE body \o <<".", "0">>

PrintF(v) == (IF v.neg THEN <<"-">> ELSE <<>>) \o (IF Style = "positional" THEN Positional(v) ELSE General(v))

---------------------------------------------------------------------------
\* the lexer's FLOAT token
AllDigits(cs) == \A i \in DOMAIN cs : IsDigit(cs[i])
IsExp(cs) ==    \* EXPONENT : ('e'|'E') ('+'|'-')? DIGIT+
  /\ Len(cs) >= 2 /\ cs[1] \in {"e", "E"}
  /\ LET r == IF cs[2] \in {"+", "-"} THEN SubSeq(cs, 3, Len(cs)) ELSE SubSeq(cs, 2, Len(cs)) IN
     Len(r) >= 1 /\ AllDigits(r)
PointAt(cs) == CHOOSE i \in DOMAIN cs : cs[i] = "." /\ \A j \in 1..(i - 1) : cs[j] # "."
ExpAt(cs) == IF \E i \in DOMAIN cs : cs[i] \in {"e", "E"}
             THEN CHOOSE i \in DOMAIN cs : cs[i] \in {"e", "E"} /\ \A j \in 1..(i - 1) : cs[j] \notin {"e", "E"}
             ELSE Len(cs) + 1
IsFloatToken(cs0) ==
  LET cs == IF Len(cs0) >= 1 /\ cs0[1] = "-" THEN Tail(cs0) ELSE cs0 IN
  /\ HasPoint(cs)
  /\ LET p == PointAt(cs)  x == ExpAt(cs) IN
     /\ p < x
     /\ AllDigits(SubSeq(cs, 1, p - 1))
     /\ x - p - 1 >= 1 /\ AllDigits(SubSeq(cs, p + 1, x - 1))
     /\ (x <= Len(cs) => IsExp(SubSeq(cs, x, Len(cs))))

\* the decimal value a FLOAT token denotes, in the normal form of v
RECURSIVE NatOf(_)
NatOf(cs) == IF cs = <<>> THEN 0 ELSE 10 * NatOf(SubSeq(cs, 1, Len(cs) - 1)) + Val(cs[Len(cs)])
Denote(cs0) ==
  LET neg == Len(cs0) >= 1 /\ cs0[1] = "-"
      cs == IF neg THEN Tail(cs0) ELSE cs0
      p == PointAt(cs)  x == ExpAt(cs)
      ip == SubSeq(cs, 1, p - 1)  fp == SubSeq(cs, p + 1, x - 1)
      all == [i \in 1..(Len(ip) + Len(fp)) |-> Val((ip \o fp)[i])]
      expo == IF x > Len(cs) THEN 0
              ELSE LET r == SubSeq(cs, x + 1, Len(cs)) IN
                   IF r[1] = "-" THEN -NatOf(Tail(r)) ELSE IF r[1] = "+" THEN NatOf(Tail(r)) ELSE NatOf(r)
      nz == {i \in DOMAIN all : all[i] # 0} IN
  IF nz = {} THEN [neg |-> neg, ds |-> <<>>, e |-> 0]
  ELSE LET first == CHOOSE i \in nz : \A j \in nz : i <= j
           last == CHOOSE i \in nz : \A j \in nz : i >= j IN
       [neg |-> neg, ds |-> SubSeq(all, first, last), e |-> Len(ip) - (first - 1) + expo]

Norm(v) == IF v.ds = <<>> THEN [neg |-> v.neg, ds |-> <<>>, e |-> 0] ELSE v
RoundTrips(v) == IsFloatToken(PrintF(v)) /\ Denote(PrintF(v)) = Norm(v)
=============================================================================
