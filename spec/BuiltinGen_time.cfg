INIT Init
NEXT Next
CONSTANT Mode = "time"
INVARIANTS Emit T07
CHECK_DEADLOCK FALSE
