------------------------------- MODULE VocabBad -------------------------------
(* Front-end family "ill-formed but parseable" (C10): programs that the parser accepts and that
   analysis or evaluation must answer with a value or an error, never a panic.  Heads with
   constructor applications of the wrong arity, and transforms that are syntactically fine but
   make no sense: a group-by key defined later, reducers over constants or applications,
   reducers inside let-transforms, repeated keys, unknown keys, no statement at all.        *)
EXTENDS Semantics
X == Var("X")
Y == Var("Y")
P == Var("P")
N == Var("N")
A(p, args) == [p |-> p, a |-> args]
BadHeads == { A("h", <<X>>), A("h", <<N>>), A("h", <<X, N>>),
              A("h", <<Ap("fn:map", <<X>>)>>), A("h", <<Ap("fn:struct", <<X>>)>>), A("h", <<Ap("fn:pair", <<X>>)>>),
              A("h", <<Ap("fn:map", <<X, Y, X>>)>>), A("h", <<Ap("fn:list", <<>>)>>), A("h", <<Ap("fn:tuple", <<>>)>>),
              A("h", <<Ap("fn:nosuch", <<X>>)>>), A("h", <<Ap("fn:plus", <<>>)>>), A("h", <<Ap("fn:list:get", <<X>>)>>) }
BadLits == { <<"pos", A("q", <<X>>)>>, <<"pos", A("r", <<X, Y>>)>>, <<"neg", A("s", <<X>>)>>,
             <<"eq", Y, Ap("fn:plus", <<X, Num(1)>>)>>, <<"eq", Y, Ap("fn:map", <<X>>)>>, <<"lt", X, Y>>,
             <<"bi", ":match_pair", <<P, X>>>>, <<"bi", ":match_field", <<X, Num(1), Y>>>>, <<"bi", ":lt", <<X>>>>,
             \* negated built-in predicates, also with a selector / key that is not a constant
             <<"eq", P, StructV(<<<<Nm("/a"), Num(1)>>>>)>>,
             <<"neg", A(":match_field", <<P, X, Num(1)>>)>>, <<"neg", A(":match_field", <<P, Ap("fn:plus", <<X, Num(1)>>), Y>>)>>,
             <<"neg", A(":match_entry", <<P, X, Num(1)>>)>>, <<"neg", A(":match_pair", <<P, X, X>>)>>, <<"neg", A(":list:member", <<X, P>>)>>,
             <<"neg", A(":lt", <<X, Y>>)>>, <<"neg", A(":match_prefix", <<X, Y>>)>> }
BadTransforms ==
  { <<"none">>,
    <<"do", <<"N">>, <<<<"N", "fn:count", <<>>>>>>>>,                       \* key defined later in the same transform
    <<"do", <<>>, <<<<"N", "fn:max", <<Num(1)>>>>>>>>,                      \* reducer over a constant
    <<"do", <<>>, <<<<"N", "fn:max", <<Ap("fn:plus", <<X, Num(1)>>)>>>>>>>>,\* reducer over an application
    <<"do", <<>>, <<<<"N", "fn:sum", <<X, Y>>>>>>>>,                        \* reducer with two operands
    <<"do", <<"X", "X">>, <<<<"N", "fn:count", <<>>>>>>>>,                  \* repeated key
    <<"do", <<"Z">>, <<<<"N", "fn:count", <<>>>>>>>>,                       \* unknown key
    <<"do", <<>>, <<>>>>,                                                   \* no statement
    <<"do", <<"X">>, <<<<"N", "fn:count", <<>>>>, <<"N", "fn:sum", <<X>>>>>>>>,   \* same variable twice
    <<"do", <<>>, <<<<"N", "fn:plus", <<X, Num(1)>>>>>>>>,                  \* not a reducer
    <<"do", <<>>, <<<<"N", "fn:collect", <<>>>>>>>>,                        \* reducer without operand
    <<"let", <<<<"N", Ap("fn:count", <<>>)>>>>>>,                           \* reducer in a let
    <<"let", <<<<"N", Ap("fn:max", <<X>>)>>>>>>,
    <<"let", <<<<"X", Ap("fn:plus", <<X, Num(1)>>)>>>>>>,                   \* redefines a body variable
    <<"let", <<<<"N", Ap("fn:plus", <<Var("M"), Num(1)>>)>>, <<"M", Num(1)>>>>>> }   \* use before definition
BadEdbs == { { A("q", <<Num(1)>>), A("q", <<Num(2)>>), A("r", <<Num(1), Num(2)>>), A("s", <<Num(2)>>) } }
BadHeads3 == { A("h", <<X>>) }
BadNone == { <<"none">> }
KeepAll(r) == TRUE
=============================================================================
