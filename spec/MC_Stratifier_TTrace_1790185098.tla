---- MODULE MC_Stratifier_TTrace_1790185098 ----
EXTENDS Sequences, TLCExt, Toolbox, Naturals, TLC, MC_Stratifier

_expression ==
    LET MC_Stratifier_TEExpression == INSTANCE MC_Stratifier_TEExpression
    IN MC_Stratifier_TEExpression!expression
----

_trace ==
    LET MC_Stratifier_TETrace == INSTANCE MC_Stratifier_TETrace
    IN MC_Stratifier_TETrace!trace
----

_inv ==
    ~(
        TLCGet("level") = Len(_TETrace)
        /\
        phase = ("done")
        /\
        result = (<<"ok", <<{"c"}, {"a"}, {"b"}>>>>)
        /\
        comp = ({"b"})
        /\
        stack = (<<>>)
        /\
        post = (<<>>)
        /\
        sccs = (<<{"c"}, {"a"}, {"b"}>>)
        /\
        G = ((<<"a", "a">> :> "none" @@ <<"a", "b">> :> "neg" @@ <<"a", "c">> :> "none" @@ <<"b", "a">> :> "none" @@ <<"b", "b">> :> "none" @@ <<"b", "c">> :> "none" @@ <<"c", "a">> :> "none" @@ <<"c", "b">> :> "none" @@ <<"c", "c">> :> "none"))
        /\
        seen = ({1, 2, 3})
        /\
        order = (<<1, 2, 3>>)
    )
----

_init ==
    /\ phase = _TETrace[1].phase
    /\ comp = _TETrace[1].comp
    /\ G = _TETrace[1].G
    /\ result = _TETrace[1].result
    /\ sccs = _TETrace[1].sccs
    /\ post = _TETrace[1].post
    /\ seen = _TETrace[1].seen
    /\ stack = _TETrace[1].stack
    /\ order = _TETrace[1].order
----

_next ==
    /\ \E i,j \in DOMAIN _TETrace:
        /\ \/ /\ j = i + 1
              /\ i = TLCGet("level")
        /\ phase  = _TETrace[i].phase
        /\ phase' = _TETrace[j].phase
        /\ comp  = _TETrace[i].comp
        /\ comp' = _TETrace[j].comp
        /\ G  = _TETrace[i].G
        /\ G' = _TETrace[j].G
        /\ result  = _TETrace[i].result
        /\ result' = _TETrace[j].result
        /\ sccs  = _TETrace[i].sccs
        /\ sccs' = _TETrace[j].sccs
        /\ post  = _TETrace[i].post
        /\ post' = _TETrace[j].post
        /\ seen  = _TETrace[i].seen
        /\ seen' = _TETrace[j].seen
        /\ stack  = _TETrace[i].stack
        /\ stack' = _TETrace[j].stack
        /\ order  = _TETrace[i].order
        /\ order' = _TETrace[j].order

\* Uncomment the ASSUME below to write the states of the error trace
\* to the given file in Json format. Note that you can pass any tuple
\* to `JsonSerialize`. For example, a sub-sequence of _TETrace.
    \* ASSUME
    \*     LET J == INSTANCE Json
    \*         IN J!JsonSerialize("MC_Stratifier_TTrace_1790185098.json", _TETrace)

=============================================================================

 Note that you can extract this module `MC_Stratifier_TEExpression`
  to a dedicated file to reuse `expression` (the module in the 
  dedicated `MC_Stratifier_TEExpression.tla` file takes precedence 
  over the module `MC_Stratifier_TEExpression` below).

---- MODULE MC_Stratifier_TEExpression ----
EXTENDS Sequences, TLCExt, Toolbox, Naturals, TLC, MC_Stratifier

expression == 
    [
        \* To hide variables of the `MC_Stratifier` spec from the error trace,
        \* remove the variables below.  The trace will be written in the order
        \* of the fields of this record.
        phase |-> phase
        ,comp |-> comp
        ,G |-> G
        ,result |-> result
        ,sccs |-> sccs
        ,post |-> post
        ,seen |-> seen
        ,stack |-> stack
        ,order |-> order
        
        \* Put additional constant-, state-, and action-level expressions here:
        \* ,_stateNumber |-> _TEPosition
        \* ,_phaseUnchanged |-> phase = phase'
        
        \* Format the `phase` variable as Json value.
        \* ,_phaseJson |->
        \*     LET J == INSTANCE Json
        \*     IN J!ToJson(phase)
        
        \* Lastly, you may build expressions over arbitrary sets of states by
        \* leveraging the _TETrace operator.  For example, this is how to
        \* count the number of times a spec variable changed up to the current
        \* state in the trace.
        \* ,_phaseModCount |->
        \*     LET F[s \in DOMAIN _TETrace] ==
        \*         IF s = 1 THEN 0
        \*         ELSE IF _TETrace[s].phase # _TETrace[s-1].phase
        \*             THEN 1 + F[s-1] ELSE F[s-1]
        \*     IN F[_TEPosition - 1]
    ]

=============================================================================



Parsing and semantic processing can take forever if the trace below is long.
 In this case, it is advised to uncomment the module below to deserialize the
 trace from a generated binary file.

\*
\*---- MODULE MC_Stratifier_TETrace ----
\*EXTENDS IOUtils, TLC, MC_Stratifier
\*
\*trace == IODeserialize("MC_Stratifier_TTrace_1790185098.bin", TRUE)
\*
\*=============================================================================
\*

---- MODULE MC_Stratifier_TETrace ----
EXTENDS TLC, MC_Stratifier

trace == 
    <<
    ([phase |-> "fwd",result |-> <<"none">>,comp |-> {},stack |-> <<>>,post |-> <<>>,sccs |-> <<>>,G |-> (<<"a", "a">> :> "none" @@ <<"a", "b">> :> "neg" @@ <<"a", "c">> :> "none" @@ <<"b", "a">> :> "none" @@ <<"b", "b">> :> "none" @@ <<"b", "c">> :> "none" @@ <<"c", "a">> :> "none" @@ <<"c", "b">> :> "none" @@ <<"c", "c">> :> "none"),seen |-> {},order |-> <<>>]),
    ([phase |-> "fwd",result |-> <<"none">>,comp |-> {},stack |-> <<[n |-> "b", todo |-> {}]>>,post |-> <<>>,sccs |-> <<>>,G |-> (<<"a", "a">> :> "none" @@ <<"a", "b">> :> "neg" @@ <<"a", "c">> :> "none" @@ <<"b", "a">> :> "none" @@ <<"b", "b">> :> "none" @@ <<"b", "c">> :> "none" @@ <<"c", "a">> :> "none" @@ <<"c", "b">> :> "none" @@ <<"c", "c">> :> "none"),seen |-> {"b"},order |-> <<>>]),
    ([phase |-> "fwd",result |-> <<"none">>,comp |-> {},stack |-> <<>>,post |-> <<"b">>,sccs |-> <<>>,G |-> (<<"a", "a">> :> "none" @@ <<"a", "b">> :> "neg" @@ <<"a", "c">> :> "none" @@ <<"b", "a">> :> "none" @@ <<"b", "b">> :> "none" @@ <<"b", "c">> :> "none" @@ <<"c", "a">> :> "none" @@ <<"c", "b">> :> "none" @@ <<"c", "c">> :> "none"),seen |-> {"b"},order |-> <<>>]),
    ([phase |-> "fwd",result |-> <<"none">>,comp |-> {},stack |-> <<[n |-> "a", todo |-> {}]>>,post |-> <<"b">>,sccs |-> <<>>,G |-> (<<"a", "a">> :> "none" @@ <<"a", "b">> :> "neg" @@ <<"a", "c">> :> "none" @@ <<"b", "a">> :> "none" @@ <<"b", "b">> :> "none" @@ <<"b", "c">> :> "none" @@ <<"c", "a">> :> "none" @@ <<"c", "b">> :> "none" @@ <<"c", "c">> :> "none"),seen |-> {"a", "b"},order |-> <<>>]),
    ([phase |-> "fwd",result |-> <<"none">>,comp |-> {},stack |-> <<>>,post |-> <<"b", "a">>,sccs |-> <<>>,G |-> (<<"a", "a">> :> "none" @@ <<"a", "b">> :> "neg" @@ <<"a", "c">> :> "none" @@ <<"b", "a">> :> "none" @@ <<"b", "b">> :> "none" @@ <<"b", "c">> :> "none" @@ <<"c", "a">> :> "none" @@ <<"c", "b">> :> "none" @@ <<"c", "c">> :> "none"),seen |-> {"a", "b"},order |-> <<>>]),
    ([phase |-> "fwd",result |-> <<"none">>,comp |-> {},stack |-> <<[n |-> "c", todo |-> {}]>>,post |-> <<"b", "a">>,sccs |-> <<>>,G |-> (<<"a", "a">> :> "none" @@ <<"a", "b">> :> "neg" @@ <<"a", "c">> :> "none" @@ <<"b", "a">> :> "none" @@ <<"b", "b">> :> "none" @@ <<"b", "c">> :> "none" @@ <<"c", "a">> :> "none" @@ <<"c", "b">> :> "none" @@ <<"c", "c">> :> "none"),seen |-> {"a", "b", "c"},order |-> <<>>]),
    ([phase |-> "fwd",result |-> <<"none">>,comp |-> {},stack |-> <<>>,post |-> <<"b", "a", "c">>,sccs |-> <<>>,G |-> (<<"a", "a">> :> "none" @@ <<"a", "b">> :> "neg" @@ <<"a", "c">> :> "none" @@ <<"b", "a">> :> "none" @@ <<"b", "b">> :> "none" @@ <<"b", "c">> :> "none" @@ <<"c", "a">> :> "none" @@ <<"c", "b">> :> "none" @@ <<"c", "c">> :> "none"),seen |-> {"a", "b", "c"},order |-> <<>>]),
    ([phase |-> "rev",result |-> <<"none">>,comp |-> {},stack |-> <<>>,post |-> <<"b", "a", "c">>,sccs |-> <<>>,G |-> (<<"a", "a">> :> "none" @@ <<"a", "b">> :> "neg" @@ <<"a", "c">> :> "none" @@ <<"b", "a">> :> "none" @@ <<"b", "b">> :> "none" @@ <<"b", "c">> :> "none" @@ <<"c", "a">> :> "none" @@ <<"c", "b">> :> "none" @@ <<"c", "c">> :> "none"),seen |-> {},order |-> <<>>]),
    ([phase |-> "rev",result |-> <<"none">>,comp |-> {"c"},stack |-> <<[n |-> "c", todo |-> {}]>>,post |-> <<"b", "a">>,sccs |-> <<>>,G |-> (<<"a", "a">> :> "none" @@ <<"a", "b">> :> "neg" @@ <<"a", "c">> :> "none" @@ <<"b", "a">> :> "none" @@ <<"b", "b">> :> "none" @@ <<"b", "c">> :> "none" @@ <<"c", "a">> :> "none" @@ <<"c", "b">> :> "none" @@ <<"c", "c">> :> "none"),seen |-> {"c"},order |-> <<>>]),
    ([phase |-> "rev",result |-> <<"none">>,comp |-> {"c"},stack |-> <<>>,post |-> <<"b", "a">>,sccs |-> <<{"c"}>>,G |-> (<<"a", "a">> :> "none" @@ <<"a", "b">> :> "neg" @@ <<"a", "c">> :> "none" @@ <<"b", "a">> :> "none" @@ <<"b", "b">> :> "none" @@ <<"b", "c">> :> "none" @@ <<"c", "a">> :> "none" @@ <<"c", "b">> :> "none" @@ <<"c", "c">> :> "none"),seen |-> {"c"},order |-> <<>>]),
    ([phase |-> "rev",result |-> <<"none">>,comp |-> {"a"},stack |-> <<[n |-> "a", todo |-> {}]>>,post |-> <<"b">>,sccs |-> <<{"c"}>>,G |-> (<<"a", "a">> :> "none" @@ <<"a", "b">> :> "neg" @@ <<"a", "c">> :> "none" @@ <<"b", "a">> :> "none" @@ <<"b", "b">> :> "none" @@ <<"b", "c">> :> "none" @@ <<"c", "a">> :> "none" @@ <<"c", "b">> :> "none" @@ <<"c", "c">> :> "none"),seen |-> {"a", "c"},order |-> <<>>]),
    ([phase |-> "rev",result |-> <<"none">>,comp |-> {"a"},stack |-> <<>>,post |-> <<"b">>,sccs |-> <<{"c"}, {"a"}>>,G |-> (<<"a", "a">> :> "none" @@ <<"a", "b">> :> "neg" @@ <<"a", "c">> :> "none" @@ <<"b", "a">> :> "none" @@ <<"b", "b">> :> "none" @@ <<"b", "c">> :> "none" @@ <<"c", "a">> :> "none" @@ <<"c", "b">> :> "none" @@ <<"c", "c">> :> "none"),seen |-> {"a", "c"},order |-> <<>>]),
    ([phase |-> "rev",result |-> <<"none">>,comp |-> {"b"},stack |-> <<[n |-> "b", todo |-> {}]>>,post |-> <<>>,sccs |-> <<{"c"}, {"a"}>>,G |-> (<<"a", "a">> :> "none" @@ <<"a", "b">> :> "neg" @@ <<"a", "c">> :> "none" @@ <<"b", "a">> :> "none" @@ <<"b", "b">> :> "none" @@ <<"b", "c">> :> "none" @@ <<"c", "a">> :> "none" @@ <<"c", "b">> :> "none" @@ <<"c", "c">> :> "none"),seen |-> {"a", "b", "c"},order |-> <<>>]),
    ([phase |-> "rev",result |-> <<"none">>,comp |-> {"b"},stack |-> <<>>,post |-> <<>>,sccs |-> <<{"c"}, {"a"}, {"b"}>>,G |-> (<<"a", "a">> :> "none" @@ <<"a", "b">> :> "neg" @@ <<"a", "c">> :> "none" @@ <<"b", "a">> :> "none" @@ <<"b", "b">> :> "none" @@ <<"b", "c">> :> "none" @@ <<"c", "a">> :> "none" @@ <<"c", "b">> :> "none" @@ <<"c", "c">> :> "none"),seen |-> {"a", "b", "c"},order |-> <<>>]),
    ([phase |-> "check",result |-> <<"none">>,comp |-> {"b"},stack |-> <<>>,post |-> <<>>,sccs |-> <<{"c"}, {"a"}, {"b"}>>,G |-> (<<"a", "a">> :> "none" @@ <<"a", "b">> :> "neg" @@ <<"a", "c">> :> "none" @@ <<"b", "a">> :> "none" @@ <<"b", "b">> :> "none" @@ <<"b", "c">> :> "none" @@ <<"c", "a">> :> "none" @@ <<"c", "b">> :> "none" @@ <<"c", "c">> :> "none"),seen |-> {"a", "b", "c"},order |-> <<>>]),
    ([phase |-> "sort",result |-> <<"none">>,comp |-> {"b"},stack |-> <<>>,post |-> <<>>,sccs |-> <<{"c"}, {"a"}, {"b"}>>,G |-> (<<"a", "a">> :> "none" @@ <<"a", "b">> :> "neg" @@ <<"a", "c">> :> "none" @@ <<"b", "a">> :> "none" @@ <<"b", "b">> :> "none" @@ <<"b", "c">> :> "none" @@ <<"c", "a">> :> "none" @@ <<"c", "b">> :> "none" @@ <<"c", "c">> :> "none"),seen |-> {},order |-> <<>>]),
    ([phase |-> "sort",result |-> <<"none">>,comp |-> {"b"},stack |-> <<[n |-> 1, todo |-> {}]>>,post |-> <<>>,sccs |-> <<{"c"}, {"a"}, {"b"}>>,G |-> (<<"a", "a">> :> "none" @@ <<"a", "b">> :> "neg" @@ <<"a", "c">> :> "none" @@ <<"b", "a">> :> "none" @@ <<"b", "b">> :> "none" @@ <<"b", "c">> :> "none" @@ <<"c", "a">> :> "none" @@ <<"c", "b">> :> "none" @@ <<"c", "c">> :> "none"),seen |-> {1},order |-> <<>>]),
    ([phase |-> "sort",result |-> <<"none">>,comp |-> {"b"},stack |-> <<>>,post |-> <<>>,sccs |-> <<{"c"}, {"a"}, {"b"}>>,G |-> (<<"a", "a">> :> "none" @@ <<"a", "b">> :> "neg" @@ <<"a", "c">> :> "none" @@ <<"b", "a">> :> "none" @@ <<"b", "b">> :> "none" @@ <<"b", "c">> :> "none" @@ <<"c", "a">> :> "none" @@ <<"c", "b">> :> "none" @@ <<"c", "c">> :> "none"),seen |-> {1},order |-> <<1>>]),
    ([phase |-> "sort",result |-> <<"none">>,comp |-> {"b"},stack |-> <<[n |-> 2, todo |-> {}]>>,post |-> <<>>,sccs |-> <<{"c"}, {"a"}, {"b"}>>,G |-> (<<"a", "a">> :> "none" @@ <<"a", "b">> :> "neg" @@ <<"a", "c">> :> "none" @@ <<"b", "a">> :> "none" @@ <<"b", "b">> :> "none" @@ <<"b", "c">> :> "none" @@ <<"c", "a">> :> "none" @@ <<"c", "b">> :> "none" @@ <<"c", "c">> :> "none"),seen |-> {1, 2},order |-> <<1>>]),
    ([phase |-> "sort",result |-> <<"none">>,comp |-> {"b"},stack |-> <<>>,post |-> <<>>,sccs |-> <<{"c"}, {"a"}, {"b"}>>,G |-> (<<"a", "a">> :> "none" @@ <<"a", "b">> :> "neg" @@ <<"a", "c">> :> "none" @@ <<"b", "a">> :> "none" @@ <<"b", "b">> :> "none" @@ <<"b", "c">> :> "none" @@ <<"c", "a">> :> "none" @@ <<"c", "b">> :> "none" @@ <<"c", "c">> :> "none"),seen |-> {1, 2},order |-> <<1, 2>>]),
    ([phase |-> "sort",result |-> <<"none">>,comp |-> {"b"},stack |-> <<[n |-> 3, todo |-> {}]>>,post |-> <<>>,sccs |-> <<{"c"}, {"a"}, {"b"}>>,G |-> (<<"a", "a">> :> "none" @@ <<"a", "b">> :> "neg" @@ <<"a", "c">> :> "none" @@ <<"b", "a">> :> "none" @@ <<"b", "b">> :> "none" @@ <<"b", "c">> :> "none" @@ <<"c", "a">> :> "none" @@ <<"c", "b">> :> "none" @@ <<"c", "c">> :> "none"),seen |-> {1, 2, 3},order |-> <<1, 2>>]),
    ([phase |-> "sort",result |-> <<"none">>,comp |-> {"b"},stack |-> <<>>,post |-> <<>>,sccs |-> <<{"c"}, {"a"}, {"b"}>>,G |-> (<<"a", "a">> :> "none" @@ <<"a", "b">> :> "neg" @@ <<"a", "c">> :> "none" @@ <<"b", "a">> :> "none" @@ <<"b", "b">> :> "none" @@ <<"b", "c">> :> "none" @@ <<"c", "a">> :> "none" @@ <<"c", "b">> :> "none" @@ <<"c", "c">> :> "none"),seen |-> {1, 2, 3},order |-> <<1, 2, 3>>]),
    ([phase |-> "done",result |-> <<"ok", <<{"c"}, {"a"}, {"b"}>>>>,comp |-> {"b"},stack |-> <<>>,post |-> <<>>,sccs |-> <<{"c"}, {"a"}, {"b"}>>,G |-> (<<"a", "a">> :> "none" @@ <<"a", "b">> :> "neg" @@ <<"a", "c">> :> "none" @@ <<"b", "a">> :> "none" @@ <<"b", "b">> :> "none" @@ <<"b", "c">> :> "none" @@ <<"c", "a">> :> "none" @@ <<"c", "b">> :> "none" @@ <<"c", "c">> :> "none"),seen |-> {1, 2, 3},order |-> <<1, 2, 3>>])
    >>
----


=============================================================================

---- CONFIG MC_Stratifier_TTrace_1790185098 ----
CONSTANTS
    Nodes <- N3
    Graphs <- AllGraphs3
    DropEdges <- DropAB

INVARIANT
    _inv

CHECK_DEADLOCK
    \* CHECK_DEADLOCK off because of PROPERTY or INVARIANT above.
    FALSE

INIT
    _init

NEXT
    _next

CONSTANT
    _TETrace <- _trace

ALIAS
    _expression
=============================================================================
\* Generated on Wed Sep 23 17:38:38 UTC 2026