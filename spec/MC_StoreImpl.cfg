SPECIFICATION Spec
CONSTANTS
  Atoms <- A4
  Hash <- H
  Bucket = "list"
INVARIANT T06
CHECK_DEADLOCK FALSE
