SPECIFICATION Spec
CONSTANTS
  Heads <- E1Heads
  BodyLits <- ProvLits
  MaxBody = 3
  Transforms <- E1Transforms
  MaxRules = 5
  FixedRules = {}
  EdbChoices <- E1Edbs
  ExtraRules <- ProvExtra
  Randomized = TRUE
  Keep <- KeepProv
INVARIANT Emit
CHECK_DEADLOCK FALSE
