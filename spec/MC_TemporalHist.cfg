INIT Init
NEXT Next
CONSTANTS
  TAtoms <- TA
  TIvs <- TI
  TPats <- TP
  Points <- PT
  MaxLen = 3
  Randomized = FALSE
INVARIANT Emit
CHECK_DEADLOCK FALSE
