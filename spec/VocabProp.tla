------------------------------ MODULE VocabProp ------------------------------
(* Vocabulary of scope PR: propositional (arity-0) predicates z and w among unary and binary ones.
   A propositional atom has exactly one possible fact; whether it holds may be established in the
   middle of a recursive stratum (z() :- p(X).  p(Y) :- z(), e(X, Y).), be stated as a base fact, or
   be negated from a higher stratum.                                                              *)
EXTENDS Semantics
X == Var("X")
Y == Var("Y")
A(p, args) == [p |-> p, a |-> args]
PRHeads == {A("z", <<>>), A("w", <<>>), A("p", <<X>>), A("p", <<Y>>), A("q", <<X>>)}
PRLits ==
  { <<"pos", A("z", <<>>)>>, <<"pos", A("w", <<>>)>>, <<"neg", A("z", <<>>)>>, <<"neg", A("w", <<>>)>>,
    <<"pos", A("f", <<X>>)>>, <<"pos", A("p", <<X>>)>>, <<"pos", A("q", <<X>>)>>, <<"pos", A("q", <<Y>>)>>,
    <<"pos", A("e", <<X, Y>>)>>, <<"pos", A("e", <<Y, X>>)>>, <<"neg", A("q", <<X>>)>> }
PRTransforms == {<<"none">>}
N1 == Num(1)
N2 == Num(2)
N3 == Num(3)
PREdbs ==
  { {A("e", <<N1, N2>>), A("e", <<N2, N3>>), A("f", <<N1>>)},
    {A("e", <<N1, N2>>), A("e", <<N2, N1>>), A("f", <<N2>>), A("z", <<>>)},
    {A("e", <<N1, N2>>), A("e", <<N2, N3>>), A("f", <<N3>>), A("p", <<N1>>), A("w", <<>>)} }
KeepSafe(r) == Safe(r)
=============================================================================
