INIT Init
NEXT Next
CONSTANTS
  Lib <- L
  TextIds <- TI
  FileSets <- FS
  MaxLen = 24
  Randomized = TRUE
INVARIANTS EmitLib Emit T16
CHECK_DEADLOCK FALSE
