INIT Init
NEXT Next
CONSTANTS
  MaxN = 5
  TreeMutant = "none"
INVARIANT T13a
CHECK_DEADLOCK FALSE
