------------------------------ MODULE StoreImpl -------------------------------
(***************************************************************************)
(* Layer 3 - the hash-bucket image of the in-memory stores and its         *)
(* refinement of the set specification (T06).  A store keeps, per hash     *)
(* value, either ONE atom (Bucket = "single": SimpleInMemoryStore,         *)
(* IndexedInMemoryStore, MultiIndexedInMemoryStore key their maps by       *)
(* Atom.Hash() and never compare atoms) or a LIST of atoms compared        *)
(* structurally (Bucket = "list": MultiIndexedArrayInMemoryStore).         *)
(* Hash may collide.  TLC checks that every reply equals the reply of the  *)
(* set FactStore and that the stored atoms are exactly the abstract set:   *)
(* true for "list", false for "single" as soon as two atoms collide.       *)
(***************************************************************************)
EXTENDS FactStore
CONSTANTS Atoms, Hash(_), Bucket
VARIABLES S,        \* abstract set (specification state)
          buckets,  \* [hash value -> set of atoms]  (|set| <= 1 when Bucket = "single")
          last      \* <<op, atom, reply of the implementation, reply of the specification>>
vars == <<S, buckets, last>>
HV == {Hash(a) : a \in Atoms}
Stored == UNION {buckets[h] : h \in HV}

ImplContains(a) == IF Bucket = "single" THEN buckets[Hash(a)] # {} ELSE a \in buckets[Hash(a)]
Init == S = {} /\ buckets = [h \in HV |-> {}] /\ last = <<"init", 0, TRUE, TRUE>>
Add(a) == /\ LET present == ImplContains(a) IN
             /\ buckets' = IF present THEN buckets ELSE [buckets EXCEPT ![Hash(a)] = @ \cup {a}]
             /\ last' = <<"add", a, ~present, AddReply({}, S, a)>>
          /\ S' = AddEffect({}, S, a)
Remove(a) == /\ LET present == ImplContains(a) IN
                /\ buckets' = IF ~present THEN buckets
                              ELSE IF Bucket = "single" THEN [buckets EXCEPT ![Hash(a)] = {}]
                              ELSE [buckets EXCEPT ![Hash(a)] = @ \ {a}]
                /\ last' = <<"rm", a, present, RemoveReply(S, a)>>
             /\ S' = RemoveEffect(S, a)
Has(a) == /\ last' = <<"has", a, ImplContains(a), HasReply({}, S, a)>>
          /\ UNCHANGED <<S, buckets>>
Next == \E a \in Atoms : Add(a) \/ Remove(a) \/ Has(a)
Spec == Init /\ [][Next]_vars
\* T06: refinement of the set specification
T06 == Stored = S /\ last[3] = last[4]
=============================================================================
