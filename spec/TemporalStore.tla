---------------------------- MODULE TemporalStore -----------------------------
(***************************************************************************)
(* Layer 3 - what the temporal store IS (property C13): a set T of pairs   *)
(* <<atom, <<lo, hi>>>> with closed intervals over the integers (NEG/POS   *)
(* for unbounded ends) and the pointwise meaning of queries.               *)
(***************************************************************************)
EXTENDS FactStore
NEG == -1000000
POS == 1000000
Finite(iv) == iv[1] # NEG /\ iv[2] # POS
HoldsAt(T, a, t) == \E x \in T : x[1] = a /\ x[2][1] <= t /\ t <= x[2][2]
IvsOf(T, a) == {x[2] : x \in {y \in T : y[1] = a}}

AtReply(T, pat, t) == {x \in T : Matches(pat, x[1]) /\ x[2][1] <= t /\ t <= x[2][2]}
DuringReply(T, pat, iv) == {x \in T : Matches(pat, x[1]) /\ x[2][1] <= iv[2] /\ iv[1] <= x[2][2]}
AllReply(T, pat) == {x \in T : Matches(pat, x[1])}

\* Add: <<reply, error kind>>.  A duplicate offered to an atom that is at its limit may be answered either way.
AddOutcomes(T, a, iv, limit) ==
  IF iv[1] > iv[2] THEN {<<FALSE, "invalid">>}
  ELSE LET n == Cardinality(IvsOf(T, a))  dup == <<a, iv>> \in T IN
       IF limit > 0 /\ n >= limit THEN ({<<FALSE, "limit">>} \cup (IF dup THEN {<<FALSE, "">>} ELSE {}))
       ELSE IF dup THEN {<<FALSE, "">>} ELSE {<<TRUE, "">>}

\* Coalescing (property level): the instants at which each atom holds are unchanged and the finite
\* intervals of each atom are pairwise neither overlapping nor adjacent (gap of at least 2 units).
Separated(ivs) == \A x \in ivs, y \in ivs : (x # y /\ Finite(x) /\ Finite(y)) => (x[2] + 1 < y[1] \/ y[2] + 1 < x[1])
Bounds(T) == UNION {{x[2][1], x[2][2]} : x \in T} \ {NEG, POS}
ProbePoints(T, U) ==
  LET b == Bounds(T) \cup Bounds(U) IN
  IF b = {} THEN {0, NEG, POS} ELSE ((MinOf(b) - 2)..(MaxOf(b) + 2)) \cup {NEG, POS}
\* Coalescing (constructive): two finite intervals of one atom merge when they share an instant or are adjacent at
\* the store's granularity. gap = 1 when one unit of the model IS the store's granularity (a nanosecond), gap = 0 when
\* a unit is coarser (the evaluation family's unit is a second: [0,1] and [2,3] are a second apart, not adjacent).
\* Each connected group of FINITE intervals becomes its hull; half-unbounded and eternal intervals stay as they are
\* (the property speaks of the finite intervals only, and so does factstore.coalesceIntervals).
IvMeet(x, y, gap) == x[1] <= y[2] + gap /\ y[1] <= x[2] + gap
RECURSIVE Group(_, _, _)
Group(S, ivs, gap) == LET S2 == S \cup {y \in ivs : \E z \in S : IvMeet(y, z, gap)} IN IF S2 = S THEN S ELSE Group(S2, ivs, gap)
Hull(S) == <<MinOf({y[1] : y \in S}), MaxOf({y[2] : y \in S})>>
CoalesceIvs(ivs, gap) == LET fin == {x \in ivs : Finite(x)} IN {Hull(Group({x}, fin, gap)) : x \in fin} \cup (ivs \ fin)
CoalesceDB(T, gap) == UNION {{<<a, iv>> : iv \in CoalesceIvs(IvsOf(T, a), gap)} : a \in {x[1] : x \in T}}
CoalesceOK(before, after) ==
  /\ {x[1] : x \in after} \subseteq {x[1] : x \in before}
  /\ \A a \in {x[1] : x \in before} :
       /\ \A t \in ProbePoints(before, after) : HoldsAt(before, a, t) <=> HoldsAt(after, a, t)
       /\ Separated(IvsOf(after, a))
=============================================================================
