---- MODULE MC_StoreImpl_TTrace_1790186250 ----
EXTENDS Sequences, TLCExt, Toolbox, MC_StoreImpl, Naturals, TLC

_expression ==
    LET MC_StoreImpl_TEExpression == INSTANCE MC_StoreImpl_TEExpression
    IN MC_StoreImpl_TEExpression!expression
----

_trace ==
    LET MC_StoreImpl_TETrace == INSTANCE MC_StoreImpl_TETrace
    IN MC_StoreImpl_TETrace!trace
----

_inv ==
    ~(
        TLCGet("level") = Len(_TETrace)
        /\
        S = ({"plist1", "p65792"})
        /\
        last = (<<"add", "p65792", FALSE, TRUE>>)
        /\
        buckets = ((1 :> {} @@ 2 :> {} @@ 7 :> {"plist1"}))
    )
----

_init ==
    /\ S = _TETrace[1].S
    /\ last = _TETrace[1].last
    /\ buckets = _TETrace[1].buckets
----

_next ==
    /\ \E i,j \in DOMAIN _TETrace:
        /\ \/ /\ j = i + 1
              /\ i = TLCGet("level")
        /\ S  = _TETrace[i].S
        /\ S' = _TETrace[j].S
        /\ last  = _TETrace[i].last
        /\ last' = _TETrace[j].last
        /\ buckets  = _TETrace[i].buckets
        /\ buckets' = _TETrace[j].buckets

\* Uncomment the ASSUME below to write the states of the error trace
\* to the given file in Json format. Note that you can pass any tuple
\* to `JsonSerialize`. For example, a sub-sequence of _TETrace.
    \* ASSUME
    \*     LET J == INSTANCE Json
    \*         IN J!JsonSerialize("MC_StoreImpl_TTrace_1790186250.json", _TETrace)

=============================================================================

 Note that you can extract this module `MC_StoreImpl_TEExpression`
  to a dedicated file to reuse `expression` (the module in the 
  dedicated `MC_StoreImpl_TEExpression.tla` file takes precedence 
  over the module `MC_StoreImpl_TEExpression` below).

---- MODULE MC_StoreImpl_TEExpression ----
EXTENDS Sequences, TLCExt, Toolbox, MC_StoreImpl, Naturals, TLC

expression == 
    [
        \* To hide variables of the `MC_StoreImpl` spec from the error trace,
        \* remove the variables below.  The trace will be written in the order
        \* of the fields of this record.
        S |-> S
        ,last |-> last
        ,buckets |-> buckets
        
        \* Put additional constant-, state-, and action-level expressions here:
        \* ,_stateNumber |-> _TEPosition
        \* ,_SUnchanged |-> S = S'
        
        \* Format the `S` variable as Json value.
        \* ,_SJson |->
        \*     LET J == INSTANCE Json
        \*     IN J!ToJson(S)
        
        \* Lastly, you may build expressions over arbitrary sets of states by
        \* leveraging the _TETrace operator.  For example, this is how to
        \* count the number of times a spec variable changed up to the current
        \* state in the trace.
        \* ,_SModCount |->
        \*     LET F[s \in DOMAIN _TETrace] ==
        \*         IF s = 1 THEN 0
        \*         ELSE IF _TETrace[s].S # _TETrace[s-1].S
        \*             THEN 1 + F[s-1] ELSE F[s-1]
        \*     IN F[_TEPosition - 1]
    ]

=============================================================================



Parsing and semantic processing can take forever if the trace below is long.
 In this case, it is advised to uncomment the module below to deserialize the
 trace from a generated binary file.

\*
\*---- MODULE MC_StoreImpl_TETrace ----
\*EXTENDS IOUtils, MC_StoreImpl, TLC
\*
\*trace == IODeserialize("MC_StoreImpl_TTrace_1790186250.bin", TRUE)
\*
\*=============================================================================
\*

---- MODULE MC_StoreImpl_TETrace ----
EXTENDS MC_StoreImpl, TLC

trace == 
    <<
    ([S |-> {},last |-> <<"init", 0, TRUE, TRUE>>,buckets |-> (1 :> {} @@ 2 :> {} @@ 7 :> {})]),
    ([S |-> {"plist1"},last |-> <<"add", "plist1", TRUE, TRUE>>,buckets |-> (1 :> {} @@ 2 :> {} @@ 7 :> {"plist1"})]),
    ([S |-> {"plist1", "p65792"},last |-> <<"add", "p65792", FALSE, TRUE>>,buckets |-> (1 :> {} @@ 2 :> {} @@ 7 :> {"plist1"})])
    >>
----


=============================================================================

---- CONFIG MC_StoreImpl_TTrace_1790186250 ----
CONSTANTS
    Atoms <- A4
    Hash <- H
    Bucket = "single"

INVARIANT
    _inv

CHECK_DEADLOCK
    \* CHECK_DEADLOCK off because of PROPERTY or INVARIANT above.
    FALSE

INIT
    _init

NEXT
    _next

CONSTANT
    _TETrace <- _trace

ALIAS
    _expression
=============================================================================
\* Generated on Wed Sep 23 17:57:31 UTC 2026