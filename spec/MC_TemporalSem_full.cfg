INIT Init
NEXT Next
CONSTANT N = 4
INVARIANT T14
CHECK_DEADLOCK FALSE
