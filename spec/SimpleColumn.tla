----------------------------- MODULE SimpleColumn -----------------------------
(***************************************************************************)
(* Layer 3 - the simple-column file format (factstore/simplecolumn.go).    *)
(* A file is a sequence of abstract lines:                                 *)
(*   <<"n", k>>                       number of predicates                 *)
(*   <<"pred", sym, arity, count>>    one header line per predicate        *)
(*   <<"val", constant>>              one line per column entry,           *)
(*                                    column-major per predicate           *)
(* Write, ReadInto and the lazy GetFacts (skip arithmetic over the header) *)
(* are defined on that sequence; T19 states the round trip.                *)
(***************************************************************************)
EXTENDS FactStore, SequencesExt

\* preds: sequence of <<sym, arity>> (any order: ListPredicates order); facts(p): sequence of the facts of p
FactsOf(S, p) == {f \in S : PredOf(f) = p}
Column(fs, j) == [i \in DOMAIN fs |-> <<"val", fs[i].a[j]>>]
RECURSIVE Concat(_)
Concat(qs) == IF qs = <<>> THEN <<>> ELSE Head(qs) \o Concat(Tail(qs))
PredLines(fs, arity) == Concat([j \in 1..arity |-> Column(fs, j)])

\* order: a function giving, for every listed predicate, its facts as a sequence (insertion / map order)
Write(preds, order) ==
  <<<<"n", Len(preds)>>>>
  \o [i \in DOMAIN preds |-> <<"pred", preds[i][1], preds[i][2], Len(order[preds[i]])>>]
  \o Concat([i \in DOMAIN preds |-> PredLines(order[preds[i]], preds[i][2])])

\* reading
Header(file) == [i \in 1..file[1][2] |-> file[1 + i]]
BodyStart(file) == 2 + file[1][2]
\* lines to skip before predicate number k (1-based): header + all earlier predicates with arity > 0
SkipBefore(file, k) ==
  LET h == Header(file) IN
  (1 + Len(h)) + FoldLeft(LAMBDA acc, i : acc + h[i][3] * h[i][4], 0, [i \in 1..(k - 1) |-> i])
ReadPredAt(file, k) ==
  LET h == Header(file)[k]  start == SkipBefore(file, k)  n == h[4]  ar == h[3] IN
  {[p |-> h[2], a |-> [j \in 1..ar |-> file[start + (j - 1) * n + i][2]]] : i \in 1..n}
ReadInto(file) ==
  UNION {IF Header(file)[k][3] = 0
         THEN (IF Header(file)[k][4] > 0 THEN {[p |-> Header(file)[k][2], a |-> <<>>]} ELSE {})
         ELSE ReadPredAt(file, k) : k \in DOMAIN Header(file)}
LazyGet(file, pat) ==
  LET ks == {k \in DOMAIN Header(file) : Header(file)[k][2] = pat.p /\ Header(file)[k][3] = Len(pat.a)} IN
  IF ks = {} THEN {}
  ELSE LET k == CHOOSE x \in ks : TRUE IN
       {f \in (IF Header(file)[k][3] = 0
               THEN (IF Header(file)[k][4] > 0 THEN {[p |-> pat.p, a |-> <<>>]} ELSE {})
               ELSE ReadPredAt(file, k)) : Matches(pat, f)}
=============================================================================
