------------------------------ MODULE Builtins ------------------------------
(***************************************************************************)
(* Layer 2a - meaning of the built-in functions that have a finite meaning *)
(* over Values (docs/builtin_functions.md).  ApplyFn returns a value or    *)
(* ERR; it is total.  Integer division truncates toward zero (Go).         *)
(***************************************************************************)
EXTENDS Values

Abs(i) == IF i < 0 THEN -i ELSE i
Sgn(i) == IF i < 0 THEN -1 ELSE IF i = 0 THEN 0 ELSE 1
\* truncating division / remainder (sign of remainder follows the dividend)
TDiv(x, y) == Sgn(x) * Sgn(y) * (Abs(x) \div Abs(y))
TMod(x, y) == x - TDiv(x, y) * y

AllNum(a) == \A i \in DOMAIN a : IsNum(a[i])

RECURSIVE FoldNum(_, _, _, _)
FoldNum(op, a, i, acc) ==
  IF i > Len(a) THEN acc
  ELSE FoldNum(op, a, i + 1,
         CASE op = "+" -> acc + a[i][2]
           [] op = "-" -> acc - a[i][2]
           [] op = "*" -> acc * a[i][2])

RECURSIVE DivFold(_, _, _)
\* fn:div(a1,...,an) = ((a1 / a2) / a3) ...; ERR on a zero divisor
DivFold(a, i, acc) ==
  IF i > Len(a) THEN Num(acc)
  ELSE IF a[i][2] = 0 THEN ERR ELSE DivFold(a, i + 1, TDiv(acc, a[i][2]))

SeqContains(q, v) == \E i \in DOMAIN q : q[i] = v

LookupEntry(q, k) ==
  IF \E i \in DOMAIN q : q[i][1] = k
  THEN (LET i == CHOOSE j \in DOMAIN q : q[j][1] = k IN q[i][2])
  ELSE ERR

RECURSIVE PairUp(_, _)
PairUp(a, i) == IF i > Len(a) THEN <<>> ELSE <<<<a[i], a[i + 1]>>>> \o PairUp(a, i + 2)

RECURSIVE MkTuple(_, _)
\* fn:tuple(a,b,c) = pair(a, pair(b, c)); fn:tuple(a) = a
MkTuple(a, i) == IF i = Len(a) THEN a[i] ELSE Pair(a[i], MkTuple(a, i + 1))

(***************************************************************************)
(* String and name functions over ASCII text (TLC evaluates Len, \o and    *)
(* SubSeq on strings): they agree with plain string operations.            *)
(***************************************************************************)
StartsWith(s, p) == Len(p) <= Len(s) /\ SubSeq(s, 1, Len(p)) = p
EndsWith(s, p) == Len(p) <= Len(s) /\ SubSeq(s, Len(s) - Len(p) + 1, Len(s)) = p
ContainsStr(s, p) == \E i \in 0..(Len(s) - Len(p)) : SubSeq(s, i + 1, i + Len(p)) = p
\* leftmost non-overlapping replacement of at most n occurrences (n < 0: all) of a non-empty old (strings.Replace)
RECURSIVE ReplaceStr(_, _, _, _)
ReplaceStr(s, old, new, n) ==
  IF n = 0 \/ Len(s) < Len(old) THEN s
  ELSE IF SubSeq(s, 1, Len(old)) = old THEN new \o ReplaceStr(SubSeq(s, Len(old) + 1, Len(s)), old, new, IF n < 0 THEN n ELSE n - 1)
  ELSE SubSeq(s, 1, 1) \o ReplaceStr(SubSeq(s, 2, Len(s)), old, new, n)
\* an empty old matches at the beginning of the string and after every character: up to Len(s) + 1 insertions
RECURSIVE InsertEvery(_, _, _)
InsertEvery(s, new, k) ==
  IF k = 0 THEN s
  ELSE IF s = "" THEN new
  ELSE new \o SubSeq(s, 1, 1) \o InsertEvery(SubSeq(s, 2, Len(s)), new, k - 1)
\* text of a value inside fn:string:concat
TextOf(v) == IF IsStr(v) \/ IsName(v) THEN v[2] ELSE IF IsNum(v) THEN ToString(v[2]) ELSE "?"
Textual(v) == IsStr(v) \/ IsName(v) \/ IsNum(v)
RECURSIVE ConcatText(_, _)
ConcatText(a, i) == IF i > Len(a) THEN "" ELSE TextOf(a[i]) \o ConcatText(a, i + 1)
\* the parts of a name "/a/b": positions of the slashes
Slashes(s) == {i \in 1..Len(s) : SubSeq(s, i, i) = "/"}
NextSlash(s, i) == IF \E j \in Slashes(s) : j > i THEN (CHOOSE j \in Slashes(s) : j > i /\ \A k \in Slashes(s) : k > i => j <= k) ELSE Len(s) + 1
LastSlash(s) == CHOOSE j \in Slashes(s) : \A k \in Slashes(s) : k <= j
NameRoot(s) == SubSeq(s, 1, NextSlash(s, 1) - 1)
NameTip(s) == SubSeq(s, LastSlash(s), Len(s))
RECURSIVE NamePartsFrom(_, _)
NamePartsFrom(s, i) == IF i > Len(s) THEN <<>> ELSE <<Nm(SubSeq(s, i, NextSlash(s, i) - 1))>> \o NamePartsFrom(s, NextSlash(s, i))
\* a name is below a prefix when its parts extend the prefix's parts
BelowPrefix(nm, pre) == StartsWith(nm, pre \o "/")

ApplyFn(f, a) ==
  CASE f = "fn:plus"  -> IF AllNum(a) /\ Len(a) >= 1 THEN Num(FoldNum("+", a, 2, a[1][2])) ELSE ERR
    [] f = "fn:minus" -> IF AllNum(a) /\ Len(a) >= 1
                         THEN (IF Len(a) = 1 THEN Num(-a[1][2]) ELSE Num(FoldNum("-", a, 2, a[1][2])))
                         ELSE ERR
    [] f = "fn:mult"  -> IF AllNum(a) /\ Len(a) >= 1 THEN Num(FoldNum("*", a, 2, a[1][2])) ELSE ERR
    [] f = "fn:div"   -> IF AllNum(a) /\ Len(a) >= 2 THEN DivFold(a, 2, a[1][2])
                         \* one argument: the reciprocal 1 / a1 in integer division (functional.go: "integer division 1 / arg[0]")
                         ELSE IF AllNum(a) /\ Len(a) = 1 THEN (IF a[1][2] = 0 THEN ERR ELSE Num(TDiv(1, a[1][2])))
                         ELSE ERR
    [] f = "fn:mod"   -> IF AllNum(a) /\ Len(a) = 2 /\ a[2][2] # 0 THEN Num(TMod(a[1][2], a[2][2])) ELSE ERR
    [] f = "fn:pair"  -> IF Len(a) = 2 THEN Pair(a[1], a[2]) ELSE ERR
    [] f = "fn:tuple" -> IF Len(a) >= 1 THEN MkTuple(a, 1) ELSE ERR
    [] f = "fn:list"  -> List(a)
    [] f = "fn:list:cons" -> IF Len(a) = 2 /\ IsList(a[2]) THEN List(<<a[1]>> \o a[2][2]) ELSE ERR
    [] f = "fn:list:append" -> IF Len(a) = 2 /\ IsList(a[1]) THEN List(Append(a[1][2], a[2])) ELSE ERR
    [] f = "fn:list:len" -> IF Len(a) = 1 /\ IsList(a[1]) THEN Num(Len(a[1][2])) ELSE ERR
    [] f = "fn:list:get" -> IF Len(a) = 2 /\ IsList(a[1]) /\ IsNum(a[2])
                               /\ a[2][2] >= 0 /\ a[2][2] < Len(a[1][2])
                            THEN a[1][2][a[2][2] + 1] ELSE ERR
    [] f = "fn:list:contains" -> IF Len(a) = 2 /\ IsList(a[1])
                            THEN (IF SeqContains(a[1][2], a[2]) THEN Nm("/true") ELSE Nm("/false")) ELSE ERR
    [] f = "fn:map" -> IF Len(a) % 2 = 0 THEN MapV(PairUp(a, 1)) ELSE ERR
    [] f = "fn:struct" -> IF Len(a) % 2 = 0 THEN StructV(PairUp(a, 1)) ELSE ERR
    [] f = "fn:map:get" -> IF Len(a) = 2 /\ IsMap(a[1]) THEN LookupEntry(a[1][2], a[2]) ELSE ERR
    [] f = "fn:struct:get" -> IF Len(a) = 2 /\ IsStruct(a[1]) THEN LookupEntry(a[1][2], a[2]) ELSE ERR
    [] f = "fn:string:concat" -> IF \A i \in DOMAIN a : Textual(a[i]) THEN Str(ConcatText(a, 1)) ELSE ERR
    [] f = "fn:string:replace" -> IF Len(a) = 4 /\ IsStr(a[1]) /\ IsStr(a[2]) /\ IsStr(a[3]) /\ IsNum(a[4])
                                 THEN (IF a[2][2] = ""
                                       THEN Str(InsertEvery(a[1][2], a[3][2], IF a[4][2] < 0 \/ a[4][2] > Len(a[1][2]) + 1 THEN Len(a[1][2]) + 1 ELSE a[4][2]))
                                       ELSE Str(ReplaceStr(a[1][2], a[2][2], a[3][2], a[4][2])))
                                 ELSE ERR
    [] f = "fn:name:to_string" -> IF Len(a) = 1 /\ IsName(a[1]) THEN Str(a[1][2]) ELSE ERR
    [] f = "fn:name:root" -> IF Len(a) = 1 /\ IsName(a[1]) THEN Nm(NameRoot(a[1][2])) ELSE ERR
    [] f = "fn:name:tip" -> IF Len(a) = 1 /\ IsName(a[1]) THEN Nm(NameTip(a[1][2])) ELSE ERR
    [] f = "fn:name:list" -> IF Len(a) = 1 /\ IsName(a[1]) THEN List(NamePartsFrom(a[1][2], 1)) ELSE ERR
    [] f = "fn:number:to_string" -> IF Len(a) = 1 /\ IsNum(a[1]) THEN Str(ToString(a[1][2])) ELSE ERR
    [] f = "fn:some" -> IF Len(a) = 1 THEN a[1] ELSE ERR  \* placeholder: fn:some is not generated
    \* instants and durations are integers on one timeline (nanoseconds in the code): an instant plus a duration is an
    \* instant, the difference of two instants a duration; conversions to and from plain numbers keep the integer
    [] f = "fn:time:add" -> IF Len(a) = 2 /\ IsTime(a[1]) /\ IsDur(a[2]) THEN Tm(a[1][2] + a[2][2]) ELSE ERR
    [] f = "fn:time:sub" -> IF Len(a) = 2 /\ IsTime(a[1]) /\ IsTime(a[2]) THEN Du(a[1][2] - a[2][2]) ELSE ERR
    [] f = "fn:duration:add" -> IF Len(a) = 2 /\ IsDur(a[1]) /\ IsDur(a[2]) THEN Du(a[1][2] + a[2][2]) ELSE ERR
    [] f = "fn:duration:mult" -> IF Len(a) = 2 /\ IsDur(a[1]) /\ IsNum(a[2]) THEN Du(a[1][2] * a[2][2]) ELSE ERR
    [] f = "fn:duration:nanos" -> IF Len(a) = 1 /\ IsDur(a[1]) THEN Num(a[1][2]) ELSE ERR
    [] f = "fn:duration:from_nanos" -> IF Len(a) = 1 /\ IsNum(a[1]) THEN Du(a[1][2]) ELSE ERR
    [] f = "fn:time:to_unix_nanos" -> IF Len(a) = 1 /\ IsTime(a[1]) THEN Num(a[1][2]) ELSE ERR
    [] f = "fn:time:from_unix_nanos" -> IF Len(a) = 1 /\ IsNum(a[1]) THEN Tm(a[1][2]) ELSE ERR
    \* an interval value is a pair (start, end)
    [] f = "fn:interval:start" -> IF Len(a) = 1 /\ IsPair(a[1]) THEN a[1][2] ELSE ERR
    [] f = "fn:interval:end" -> IF Len(a) = 1 /\ IsPair(a[1]) THEN a[1][3] ELSE ERR
    [] f = "fn:interval:duration" -> IF Len(a) = 1 /\ IsPair(a[1]) /\ IsTime(a[1][2]) /\ IsTime(a[1][3]) THEN Du(a[1][3][2] - a[1][2][2]) ELSE ERR
    [] OTHER -> ERR

(***************************************************************************)
(* Comparison predicates: one total order per numeric-like type.           *)
(***************************************************************************)
Comparable(l, r) == l[1] = r[1] /\ l[1] \in {"n", "t", "d"}
CmpHolds(op, l, r) ==
  CASE op = "lt" -> l[2] < r[2]
    [] op = "le" -> l[2] <= r[2]
    [] op = "gt" -> l[2] > r[2]
    [] op = "ge" -> l[2] >= r[2]

(***************************************************************************)
(* Interval predicates (readthedocs/temporal.md, "Allen's interval          *)
(* relations"), on intervals <<s, e>> with s <= e on one integer timeline. *)
(***************************************************************************)
IntervalPreds == {":interval:before", ":interval:after", ":interval:meets", ":interval:overlaps", ":interval:during",
                  ":interval:contains", ":interval:starts", ":interval:finishes", ":interval:equals"}
IntervalHolds(f, x, y) ==
  CASE f = ":interval:before"   -> x[2] < y[1]                     \* T1 ends before T2 starts
    [] f = ":interval:after"    -> x[1] > y[2]                     \* T1 starts after T2 ends
    [] f = ":interval:meets"    -> x[2] = y[1]                     \* T1 ends exactly when T2 starts
    [] f = ":interval:overlaps" -> x[1] <= y[2] /\ y[1] <= x[2]    \* T1 and T2 share some time
    [] f = ":interval:during"   -> y[1] <= x[1] /\ x[2] <= y[2]    \* T1 is contained within T2
    [] f = ":interval:contains" -> x[1] <= y[1] /\ y[2] <= x[2]    \* T1 contains T2
    [] f = ":interval:starts"   -> x[1] = y[1]                     \* T1 and T2 start together
    [] f = ":interval:finishes" -> x[2] = y[2]                     \* T1 and T2 end together
    [] f = ":interval:equals"   -> x = y

(***************************************************************************)
(* Reducers: folds over a BAG of rows, given as a sequence of argument     *)
(* values (one per solution).  count/sum/min/max/collect_distinct-as-set   *)
(* do not depend on the order of the sequence.                             *)
(***************************************************************************)
RECURSIVE SumSeq(_, _)
SumSeq(q, i) == IF i > Len(q) THEN 0 ELSE q[i][2] + SumSeq(q, i + 1)

RECURSIVE Gcd(_, _)
Gcd(a, b) == IF b = 0 THEN a ELSE Gcd(b, a % b)
\* p/q in lowest terms with q > 0 (the Go side maps a float to the same form when it is exactly representable so)
Ratio(p, q) == LET g == Gcd(Abs(p), q) IN IF p = 0 THEN <<"ratio", 0, 1>> ELSE <<"ratio", p \div g, q \div g>>

\* vals: sequence of the reducer argument evaluated per solution (<<>> rows for fn:count)
Reduce(f, vals) ==
  CASE f = "fn:count" -> Num(Len(vals))
    [] f = "fn:sum"   -> Num(SumSeq(vals, 1))
    [] f = "fn:max"   -> Num(MaxOf({vals[i][2] : i \in DOMAIN vals}))
    [] f = "fn:min"   -> Num(MinOf({vals[i][2] : i \in DOMAIN vals}))
    [] f = "fn:count_distinct" -> Num(Cardinality(Ran(vals)))
    [] f = "fn:collect_distinct" -> <<"set", Ran(vals), Cardinality(Ran(vals))>>   \* read as a set (order is unspecified)
    [] f = "fn:avg"   -> Ratio(SumSeq(vals, 1), Len(vals))  \* exact rational in lowest terms
    [] f = "fn:time:max" -> Tm(MaxOf({vals[i][2] : i \in DOMAIN vals}))
    [] f = "fn:time:min" -> Tm(MinOf({vals[i][2] : i \in DOMAIN vals}))
    [] f = "fn:duration:max" -> Du(MaxOf({vals[i][2] : i \in DOMAIN vals}))
    [] f = "fn:duration:min" -> Du(MinOf({vals[i][2] : i \in DOMAIN vals}))
    [] f = "fn:duration:sum" -> Du(SumSeq(vals, 1))
    [] OTHER -> ERR

=============================================================================
