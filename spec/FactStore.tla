------------------------------ MODULE FactStore ------------------------------
(***************************************************************************)
(* Layer 3 - what every fact store IS: a mathematical set of ground atoms  *)
(* compared structurally (property C06).  Wrappers (MergedStore,           *)
(* TeeingStore) add a read-only lower layer; their documented layering is  *)
(* part of the model: writes and removals act on the upper layer only.     *)
(*                                                                         *)
(*   base   facts of the read-only lower layer ({} for plain stores)       *)
(*   out    facts of the writable layer                                    *)
(* Atoms are [p |-> sym, a |-> <<values>>]; a query pattern is an atom     *)
(* whose arguments are constants or variables <<"v", name>>.               *)
(***************************************************************************)
EXTENDS Values

Visible(base, out) == base \cup out
Matches(pat, f) ==
  /\ pat.p = f.p /\ Len(pat.a) = Len(f.a)
  /\ \A i \in DOMAIN pat.a : pat.a[i][1] = "v" \/ pat.a[i] = f.a[i]
PredOf(f) == <<f.p, Len(f.a)>>

\* replies of the set specification
AddReply(base, out, a) == a \notin Visible(base, out)
AddEffect(base, out, a) == IF a \in Visible(base, out) THEN out ELSE out \cup {a}
RemoveReply(out, a) == a \in out
RemoveEffect(out, a) == out \ {a}
HasReply(base, out, a) == a \in Visible(base, out)
QueryReply(base, out, pat) == {f \in Visible(base, out) : Matches(pat, f)}
MergeEffect(base, out, from) == out \cup (from \ base)
PredsOK(base, out, listed) == {PredOf(f) : f \in Visible(base, out)} \subseteq listed
=============================================================================
