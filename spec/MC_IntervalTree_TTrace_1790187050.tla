---- MODULE MC_IntervalTree_TTrace_1790187050 ----
EXTENDS Sequences, TLCExt, Toolbox, Naturals, TLC, MC_IntervalTree

_expression ==
    LET MC_IntervalTree_TEExpression == INSTANCE MC_IntervalTree_TEExpression
    IN MC_IntervalTree_TEExpression!expression
----

_trace ==
    LET MC_IntervalTree_TETrace == INSTANCE MC_IntervalTree_TETrace
    IN MC_IntervalTree_TETrace!trace
----

_inv ==
    ~(
        TLCGet("level") = Len(_TETrace)
        /\
        tree = ([iv |-> <<-1000000, 1>>, nil |-> FALSE, me |-> 1, h |-> 2, l |-> [iv |-> <<-1000000, 1000000>>, nil |-> FALSE, me |-> 1000000, h |-> 1, l |-> [nil |-> TRUE], r |-> [nil |-> TRUE]], r |-> [iv |-> <<0, 0>>, nil |-> FALSE, me |-> 0, h |-> 1, l |-> [nil |-> TRUE], r |-> [nil |-> TRUE]]])
        /\
        ins = ({<<-1000000, 1>>, <<-1000000, 1000000>>, <<0, 0>>})
    )
----

_init ==
    /\ tree = _TETrace[1].tree
    /\ ins = _TETrace[1].ins
----

_next ==
    /\ \E i,j \in DOMAIN _TETrace:
        /\ \/ /\ j = i + 1
              /\ i = TLCGet("level")
        /\ tree  = _TETrace[i].tree
        /\ tree' = _TETrace[j].tree
        /\ ins  = _TETrace[i].ins
        /\ ins' = _TETrace[j].ins

\* Uncomment the ASSUME below to write the states of the error trace
\* to the given file in Json format. Note that you can pass any tuple
\* to `JsonSerialize`. For example, a sub-sequence of _TETrace.
    \* ASSUME
    \*     LET J == INSTANCE Json
    \*         IN J!JsonSerialize("MC_IntervalTree_TTrace_1790187050.json", _TETrace)

=============================================================================

 Note that you can extract this module `MC_IntervalTree_TEExpression`
  to a dedicated file to reuse `expression` (the module in the 
  dedicated `MC_IntervalTree_TEExpression.tla` file takes precedence 
  over the module `MC_IntervalTree_TEExpression` below).

---- MODULE MC_IntervalTree_TEExpression ----
EXTENDS Sequences, TLCExt, Toolbox, Naturals, TLC, MC_IntervalTree

expression == 
    [
        \* To hide variables of the `MC_IntervalTree` spec from the error trace,
        \* remove the variables below.  The trace will be written in the order
        \* of the fields of this record.
        tree |-> tree
        ,ins |-> ins
        
        \* Put additional constant-, state-, and action-level expressions here:
        \* ,_stateNumber |-> _TEPosition
        \* ,_treeUnchanged |-> tree = tree'
        
        \* Format the `tree` variable as Json value.
        \* ,_treeJson |->
        \*     LET J == INSTANCE Json
        \*     IN J!ToJson(tree)
        
        \* Lastly, you may build expressions over arbitrary sets of states by
        \* leveraging the _TETrace operator.  For example, this is how to
        \* count the number of times a spec variable changed up to the current
        \* state in the trace.
        \* ,_treeModCount |->
        \*     LET F[s \in DOMAIN _TETrace] ==
        \*         IF s = 1 THEN 0
        \*         ELSE IF _TETrace[s].tree # _TETrace[s-1].tree
        \*             THEN 1 + F[s-1] ELSE F[s-1]
        \*     IN F[_TEPosition - 1]
    ]

=============================================================================



Parsing and semantic processing can take forever if the trace below is long.
 In this case, it is advised to uncomment the module below to deserialize the
 trace from a generated binary file.

\*
\*---- MODULE MC_IntervalTree_TETrace ----
\*EXTENDS IOUtils, TLC, MC_IntervalTree
\*
\*trace == IODeserialize("MC_IntervalTree_TTrace_1790187050.bin", TRUE)
\*
\*=============================================================================
\*

---- MODULE MC_IntervalTree_TETrace ----
EXTENDS TLC, MC_IntervalTree

trace == 
    <<
    ([tree |-> [nil |-> TRUE],ins |-> {}]),
    ([tree |-> [iv |-> <<-1000000, 1000000>>, nil |-> FALSE, me |-> 1000000, h |-> 1, l |-> [nil |-> TRUE], r |-> [nil |-> TRUE]],ins |-> {<<-1000000, 1000000>>}]),
    ([tree |-> [iv |-> <<-1000000, 1000000>>, nil |-> FALSE, me |-> 1000000, h |-> 2, l |-> [nil |-> TRUE], r |-> [iv |-> <<-1000000, 1>>, nil |-> FALSE, me |-> 1, h |-> 1, l |-> [nil |-> TRUE], r |-> [nil |-> TRUE]]],ins |-> {<<-1000000, 1>>, <<-1000000, 1000000>>}]),
    ([tree |-> [iv |-> <<-1000000, 1>>, nil |-> FALSE, me |-> 1, h |-> 2, l |-> [iv |-> <<-1000000, 1000000>>, nil |-> FALSE, me |-> 1000000, h |-> 1, l |-> [nil |-> TRUE], r |-> [nil |-> TRUE]], r |-> [iv |-> <<0, 0>>, nil |-> FALSE, me |-> 0, h |-> 1, l |-> [nil |-> TRUE], r |-> [nil |-> TRUE]]],ins |-> {<<-1000000, 1>>, <<-1000000, 1000000>>, <<0, 0>>}])
    >>
----


=============================================================================

---- CONFIG MC_IntervalTree_TTrace_1790187050 ----
CONSTANTS
    MaxN = 5
    TreeMutant = "staleMaxEnd"

INVARIANT
    _inv

CHECK_DEADLOCK
    \* CHECK_DEADLOCK off because of PROPERTY or INVARIANT above.
    FALSE

INIT
    _init

NEXT
    _next

CONSTANT
    _TETrace <- _trace

ALIAS
    _expression
=============================================================================
\* Generated on Wed Sep 23 18:10:52 UTC 2026