---------------------------- MODULE MC_TemporalGen ----------------------------
EXTENDS TemporalGen
F(p, args) == [p |-> p, a |-> args]
X == Var("X")
A1 == F("tb", <<Nm("/a")>>)
A2 == F("tb", <<Nm("/b")>>)
\* stored intervals on the timeline 0..5 (+ half-unbounded and eternal)
IVS == {<<0, 0>>, <<0, 2>>, <<1, 3>>, <<2, 2>>, <<3, 5>>, <<4, 5>>, <<5, 5>>, <<NEG, 1>>, <<4, POS>>, <<NEG, POS>>}
TF == {<<A1, iv>> : iv \in IVS} \cup {<<A2, iv>> : iv \in {<<1, 1>>, <<0, 4>>, <<2, POS>>}}
NW == 0..5
Windows == {w \in (0..3) \X (0..3) : w[1] <= w[2]}
Lit(op, w, ann) == [op |-> op, w |-> w, atom |-> F("tb", <<X>>), ann |-> ann]
R(h, ht, lit) == [h |-> h, ht |-> ht] @@ lit
\* one-rule programs
OpRules == {<<R(F("out", <<X>>), <<"none">>, Lit(op, w, <<"none">>))>> : op \in {"dm", "bm", "dp", "bp"}, w \in Windows}
AnnRules ==
  { <<R(F("span", <<X, Var("S"), Var("E")>>), <<"none">>, Lit("none", <<0, 0>>, <<"vars", "S", "E">>))>>,
    <<R(F("pt", <<X, Var("T")>>), <<"none">>, Lit("none", <<0, 0>>, <<"var1", "T">>))>>,
    <<R(F("cp", <<X>>), <<"vars", "S", "E">>, Lit("none", <<0, 0>>, <<"vars", "S", "E">>))>>,
    <<R(F("nw", <<X>>), <<"now">>, Lit("dm", <<0, 2>>, <<"none">>))>>,
    <<R(F("fx", <<X>>), <<"const", 1, 4>>, Lit("bp", <<0, 1>>, <<"none">>))>>,
    <<R(F("sp2", <<X, Var("S")>>), <<"none">>, Lit("dm", <<1, 2>>, <<"vars", "S", "E">>))>> }
R1 == OpRules \cup AnnRules
\* two-rule chains: a temporal head feeds an operator / annotation in the second rule
Lit2(op, w, ann) == [op |-> op, w |-> w, atom |-> F("cp", <<X>>), ann |-> ann]
R2 == { <<R(F("cp", <<X>>), <<"vars", "S", "E">>, Lit("none", <<0, 0>>, <<"vars", "S", "E">>)),
          R(F("out", <<X>>), <<"none">>, Lit2(op, w, <<"none">>))>> : op \in {"dm", "bm", "dp", "bp"}, w \in {<<0, 0>>, <<0, 2>>, <<1, 3>>} }
      \cup { <<R(F("cp", <<X>>), <<"now">>, Lit("bm", <<0, 1>>, <<"none">>)),
               R(F("pt", <<X, Var("T")>>), <<"none">>, Lit2("none", <<0, 0>>, <<"var1", "T">>))>> }
\* joins: a second temporal literal over tc whose annotation shares variables with the first one (both bound: the
\* stored interval must be exactly the one named; one bound: same start or same end), or carries an operator
A3 == F("tc", <<Nm("/a")>>)
TFJ == {<<A1, iv>> : iv \in {<<0, 2>>, <<1, 3>>, <<2, 2>>, <<3, 5>>, <<0, 5>>}} \cup {<<A2, iv>> : iv \in {<<1, 1>>, <<0, 4>>}}
       \cup {<<A3, iv>> : iv \in {<<0, 2>>, <<1, 3>>, <<1, 2>>, <<2, 2>>, <<0, 5>>, <<3, 4>>}} \cup {<<F("tc", <<Nm("/b")>>), iv>> : iv \in {<<1, 1>>, <<0, 5>>}}
LitC(op, w, ann) == [op |-> op, w |-> w, atom |-> F("tc", <<X>>), ann |-> ann]
RJ(h, ht, l1, l2) == [h |-> h, ht |-> ht, lit2 |-> l2] @@ l1
R3 == { <<RJ(F("m", <<X>>), ht, Lit("none", <<0, 0>>, <<"vars", "S", "E">>), LitC("none", <<0, 0>>, a2))>> :
          ht \in {<<"none">>, <<"vars", "S", "E">>}, a2 \in {<<"vars", "S", "E">>, <<"vars", "S", "E2">>, <<"vars", "S2", "E">>, <<"vars", "S2", "E2">>, <<"none">>} }
      \cup { <<RJ(F("m", <<X, Var("T")>>), <<"none">>, Lit("none", <<0, 0>>, <<"var1", "T">>), LitC("none", <<0, 0>>, a2))>> : a2 \in {<<"var1", "T">>, <<"vars", "T", "E">>, <<"vars", "S", "T">>} }
      \cup { <<RJ(F("m", <<X>>), <<"none">>, Lit("none", <<0, 0>>, <<"vars", "S", "E">>), LitC(op, w, <<"none">>))>> : op \in {"dm", "bm", "dp", "bp"}, w \in {<<0, 1>>, <<1, 2>>} }
      \cup { <<RJ(F("m", <<X>>), <<"none">>, Lit(op, <<0, 2>>, <<"none">>), LitC("none", <<0, 0>>, <<"vars", "S", "E">>))>> : op \in {"dm", "bp"} }
\* a let-transform on a temporal rule: the computed column goes into the head, the head annotation still applies
RL(h, ht, l1, lt) == [h |-> h, ht |-> ht, let |-> lt] @@ l1
R4 == { <<RL(F("lh", <<X, Var("V")>>), ht, Lit(op, <<0, 2>>, ann), lt)>> :
          ht \in {<<"none">>, <<"now">>, <<"const", 1, 4>>}, op \in {"none", "dm", "bp"}, ann \in {<<"none">>},
          lt \in {<<"V", Ap("fn:list", <<X>>)>>, <<"V", Ap("fn:plus", <<Num(1), Num(2)>>)>>} }
      \cup { <<RL(F("lh", <<X, Var("V")>>), <<"vars", "S", "E">>, Lit("none", <<0, 0>>, <<"vars", "S", "E">>), lt)>> :
          lt \in {<<"V", Ap("fn:list", <<X>>)>>, <<"V", Ap("fn:pair", <<X, Num(1)>>)>>} }
      \cup { <<RL(F("lh", <<X, Var("V")>>), <<"vars", "S", "E">>, Lit("none", <<0, 0>>, <<"vars", "S", "E">>), <<"V", Ap("fn:list", <<X>>)>>),
               R(F("out", <<X>>), <<"none">>, [op |-> op, w |-> <<0, 2>>, atom |-> F("lh", <<X, Var("W")>>), ann |-> <<"none">>])>> : op \in {"dm", "bm"} }
\* C05 for temporal programs: several, possibly overlapping and nested, intervals of one atom on a 0..9 timeline
\* (a long early interval that out-lasts later short ones, equal starts, equal ends, touching intervals)
IVO == {<<0, 9>>, <<0, 5>>, <<0, 1>>, <<1, 2>>, <<1, 8>>, <<2, 3>>, <<3, 4>>, <<4, 4>>, <<5, 7>>, <<6, 9>>, <<8, 9>>, <<NEG, 3>>, <<2, POS>>}
TFO == {<<A1, iv>> : iv \in IVO} \cup {<<A2, iv>> : iv \in {<<0, 9>>, <<1, 2>>, <<3, 4>>, <<5, 6>>}}
NWO == 0..9
=============================================================================
