INIT Init
NEXT Next
INVARIANTS Emit Separates
CHECK_DEADLOCK FALSE
