------------------------------ MODULE MC_GenProp ------------------------------
(* Scope PR (propositional predicates) as an instance of the program grammar machine. *)
EXTENDS ProgGen, VocabProp
=============================================================================
