----------------------------- MODULE MC_StoreHist -----------------------------
EXTENDS StoreHist
F(p, args) == [p |-> p, a |-> args]
\* atom universe: plain atoms, the hash-equal pair p([1]) / p(65792), zero arity, same symbol with
\* another arity, structured values, a name
U == { F("p", <<Num(1)>>), F("p", <<Num(2)>>), F("p", <<List(<<Num(1)>>)>>), F("p", <<Num(65792)>>),
       F("z", <<>>), F("p", <<Num(1), Num(2)>>), F("q", <<Pair(Num(1), Str("a"))>>), F("p", <<Num(2), Num(2)>>),
       F("p", <<<<"f", "NaN">>>>) }   \* a float that is not equal to itself as a number, but is one element of a set of atoms
V(x) == <<"v", x>>
\* patterns: whole predicate, constant in the first / a non-first column, repeated variable, no match
Pats == { F("p", <<V("X")>>), F("p", <<Num(1)>>), F("p", <<List(<<Num(1)>>)>>), F("p", <<<<"f", "NaN">>>>), F("p", <<V("X"), V("Y")>>),
          F("p", <<V("X"), Num(2)>>), F("p", <<Num(2), V("Y")>>), F("z", <<>>), F("q", <<V("_")>>), F("r", <<V("X")>>) }
Srcs == { {F("p", <<Num(1)>>), F("p", <<Num(1), Num(2)>>)}, {F("p", <<Num(65792)>>), F("z", <<>>)}, {} }
=============================================================================
