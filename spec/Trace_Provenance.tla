--------------------------- MODULE Trace_Provenance ---------------------------
(***************************************************************************)
(* Direction B for C15: each line is one evaluated program with the proofs *)
(* the real code returned for EVERY fact of the store (post-hoc and from   *)
(* a recording, proof limits 1 and 3).  Judged by Provenance.tla:          *)
(*   every returned proof is a valid derivation (partial proofs excepted), *)
(*   every stored fact has at least one complete proof,                    *)
(*   equal content => equal identifier, recorder does not change the store.*)
(***************************************************************************)
EXTENDS Provenance, Json, IOUtils
Trace == ndJsonDeserialize(IOEnv.TRACE)
VARIABLE l
SetOf(q) == {q[i] : i \in DOMAIN q}
EdbPreds(c) == {<<f.p, Len(f.a)>> : f \in SetOf(c.facts)} \ {<<r.h.p, Len(r.h.a)>> : r \in SetOf(c.analysed)}
AllNodes(c) == UNION {UNION {Nodes(g.proofs[k]) : k \in DOMAIN g.proofs} : g \in SetOf(c.goals)}
TransformFree(c) == \A r \in SetOf(c.analysed) : r.t = <<"none">>
\* built-in predicates in rule bodies are outside the property's quantifier (the explainer looks atoms up in the store)
NoBuiltins(c) == \A r \in SetOf(c.analysed) : \A i \in DOMAIN r.b : r.b[i][1] \in {"pos", "neg", "eq", "ne"}
GoalVerdicts(c, g) ==
  LET M == SetOf(c.facts)  rules == SetOf(c.analysed) IN
  (IF \E k \in DOMAIN g.proofs : Complete(g.proofs[k]) /\ ~ValidProof(g.proofs[k], rules, EdbPreds(c), SetOf(c.edb), M, {})
   THEN {"INVALID_PROOF"} ELSE {})
  \cup (IF \E k \in DOMAIN g.proofs : g.proofs[k].fact # g.goal THEN {"PROOF_OF_ANOTHER_FACT"} ELSE {})
  \* existence of a complete proof is claimed for transform-free programs without built-in predicates, for post-hoc
  \* explanation and for proofs rebuilt from a recording alike (the first recorded derivation of every fact is
  \* well-founded, so a complete proof can always be rebuilt)
  \cup (IF TransformFree(c) /\ NoBuiltins(c) /\ ~\E k \in DOMAIN g.proofs : Complete(g.proofs[k])
        THEN {"NO_COMPLETE_PROOF"} ELSE {})
  \cup (IF Len(g.proofs) > g.maxproofs THEN {"TOO_MANY_PROOFS"} ELSE {})
Verdicts(c) ==
  IF c.outcome # "ok" THEN {}
  ELSE (IF ~c.recorder_same THEN {<<"RECORDER_CHANGED_RESULT", 0>>} ELSE {})
       \cup (IF ~IdsByContent(AllNodes(c)) THEN {<<"ID_NOT_BY_CONTENT", 0>>} ELSE {})
       \cup UNION {{<<v, i>> : v \in GoalVerdicts(c, c.goals[i])} : i \in DOMAIN c.goals}
Init == l = 1
Next == /\ l <= Len(Trace) /\ l' = l + 1
        /\ PrintT(<<"CLASS", Trace[l].id, Trace[l].outcome>>)
        /\ \A v \in Verdicts(Trace[l]) : PrintT(<<"MISMATCH", Trace[l].id, v[2], v[1], "null">>)
Accepted == l = Len(Trace) + 1 => PrintT(<<"CONSUMED", Len(Trace)>>)
=============================================================================
