----------------------------- MODULE IntervalTree -----------------------------
(***************************************************************************)
(* Layer 3 - factstore.IntervalTree: an AVL tree of closed intervals       *)
(* ordered by start, each node carrying the maximum end of its subtree.    *)
(* Trees are nested records; insertion, the four rotation cases,           *)
(* updateMaxEnd and the pruned point / range searches follow               *)
(* factstore/interval_tree.go function by function.                        *)
(* An interval is <<lo, hi>> over the integers; NEG / POS stand for the    *)
(* unbounded ends (math.MinInt64 / MaxInt64 in the code).                  *)
(***************************************************************************)
EXTENDS Integers, Sequences, FiniteSets, TLC
CONSTANT TreeMutant   \* "none" | "staleMaxEnd": rotations update heights but keep the old subtree maxima
NEG == -1000000
POS == 1000000
Nil == [nil |-> TRUE]
Node(iv, me, h, l, r) == [nil |-> FALSE, iv |-> iv, me |-> me, h |-> h, l |-> l, r |-> r]
Max2(a, b) == IF a > b THEN a ELSE b
Height(t) == IF t.nil THEN 0 ELSE t.h
MaxEndOf(t) == IF t.nil THEN NEG - 1 ELSE t.me

\* updateHeight + updateMaxEnd
Fix(t) == Node(t.iv, Max2(t.iv[2], Max2(MaxEndOf(t.l), MaxEndOf(t.r))), 1 + Max2(Height(t.l), Height(t.r)), t.l, t.r)
Balance(t) == IF t.nil THEN 0 ELSE Height(t.l) - Height(t.r)
FixH(t) == Node(t.iv, t.me, 1 + Max2(Height(t.l), Height(t.r)), t.l, t.r)
RFix(t) == IF TreeMutant = "staleMaxEnd" THEN FixH(t) ELSE Fix(t)
RotateRight(y) == LET x == y.l IN RFix(Node(x.iv, x.me, 0, x.l, RFix(Node(y.iv, y.me, 0, x.r, y.r))))
RotateLeft(x)  == LET y == x.r IN RFix(Node(y.iv, y.me, 0, RFix(Node(x.iv, x.me, 0, x.l, y.l)), y.r))
Rebalance(t0) ==
  LET t == Fix(t0) IN
  IF Balance(t) > 1
  THEN RotateRight(IF Balance(t.l) < 0 THEN Node(t.iv, t.me, t.h, RotateLeft(t.l), t.r) ELSE t)
  ELSE IF Balance(t) < -1
  THEN RotateLeft(IF Balance(t.r) > 0 THEN Node(t.iv, t.me, t.h, t.l, RotateRight(t.r)) ELSE t)
  ELSE t

RECURSIVE Ins(_, _)
Ins(t, iv) ==
  IF t.nil THEN Node(iv, iv[2], 1, Nil, Nil)
  ELSE IF iv[1] < t.iv[1] THEN Rebalance(Node(t.iv, t.me, t.h, Ins(t.l, iv), t.r))
  ELSE Rebalance(Node(t.iv, t.me, t.h, t.l, Ins(t.r, iv)))

RECURSIVE FindExact(_, _)
FindExact(t, iv) ==
  IF t.nil THEN FALSE
  ELSE IF t.iv = iv THEN TRUE
  ELSE IF iv[1] < t.iv[1] THEN FindExact(t.l, iv)
  ELSE FindExact(t.r, iv) \/ (iv[1] = t.iv[1] /\ FindExact(t.l, iv))

RECURSIVE QueryPoint(_, _)
QueryPoint(t, ts) ==
  IF t.nil \/ t.me < ts THEN {}
  ELSE QueryPoint(t.l, ts)
       \cup (IF t.iv[1] <= ts /\ ts <= t.iv[2] THEN {t.iv} ELSE {})
       \cup (IF ts >= t.iv[1] THEN QueryPoint(t.r, ts) ELSE {})

RECURSIVE QueryRange(_, _, _)
QueryRange(t, s, e) ==
  IF t.nil \/ t.me < s THEN {}
  ELSE QueryRange(t.l, s, e)
       \cup (IF t.iv[1] <= e /\ s <= t.iv[2] THEN {t.iv} ELSE {})
       \cup (IF t.iv[1] <= e THEN QueryRange(t.r, s, e) ELSE {})

RECURSIVE AllOf(_)
AllOf(t) == IF t.nil THEN {} ELSE AllOf(t.l) \cup {t.iv} \cup AllOf(t.r)
RECURSIVE SizeOf(_)
SizeOf(t) == IF t.nil THEN 0 ELSE 1 + SizeOf(t.l) + SizeOf(t.r)

\* ------------------------------------------------------------------ structural invariants
RECURSIVE WellFormed(_)
WellFormed(t) ==
  t.nil \/ ( /\ WellFormed(t.l) /\ WellFormed(t.r)
             /\ \A iv \in AllOf(t.l) : iv[1] <= t.iv[1]            \* search order (equal starts may be on either side after rotations)
             /\ \A iv \in AllOf(t.r) : iv[1] >= t.iv[1]
             /\ t.h = 1 + Max2(Height(t.l), Height(t.r))
             /\ Balance(t) \in {-1, 0, 1}                           \* AVL
             /\ t.me = Max2(t.iv[2], Max2(MaxEndOf(t.l), MaxEndOf(t.r))) )   \* subtree maximum is exact
=============================================================================
