---------------------------- MODULE Trace_Model -----------------------------
(***************************************************************************)
(* Direction B for the evaluation family (C01, C02, C03, C04, C05, C17,    *)
(* C20): every line of the recorded file is one program + base facts with  *)
(* the distinct observables ("variants") the real code produced for it     *)
(* over all configurations (stores, fact presentation, engine, repeats).   *)
(* Each variant is judged against Semantics.tla:                           *)
(*   program unsafe            : an "ok" outcome is ACCEPTED_UNSAFE        *)
(*   safe, not stratifiable    : "ok" is ACCEPTED_UNSTRATIFIABLE           *)
(*   safe and stratifiable     : "ok" must carry exactly StratifiedModel;  *)
(*                               strat_err is SPURIOUS_STRAT_ERR;          *)
(*                               eval_err / panic is EVAL_FAILURE;         *)
(*                               analysis_err is allowed (safe-but-rejected)*)
(* A rejected variant is reported and consumption continues, so the rest   *)
(* of the trace is still checked.                                          *)
(***************************************************************************)
EXTENDS Semantics, Json, IOUtils

Trace == ndJsonDeserialize(IOEnv.TRACE)
VARIABLE l

SetOf(q) == {q[i] : i \in DOMAIN q}
RulesOf(c) == SetOf(c.rules)
AllSafe(c) == \A r \in RulesOf(c) : Safe(r)
AnyAmbiguous(c) == \E r \in RulesOf(c) : Ambiguous(r)
Fuel(c) == IF "fuel" \in DOMAIN c THEN c.fuel ELSE 1000
Expected(c) == StratifiedModelFuel(RulesOf(c), SetOf(c.edb), Fuel(c))

\* In the aggregation family a collected list is read as a set (its order is documented as
\* unspecified): a list value becomes <<"set", elements, length>> on the observed side.
IsAgg(c) == "family" \in DOMAIN c /\ c.family = "agg"
ListAsSet(x) == IF x[1] = "list" THEN <<"set", Ran(x[2]), Len(x[2])>> ELSE x
NormFact(f) == [p |-> f.p, a |-> [i \in DOMAIN f.a |-> ListAsSet(f.a[i])]]
\* External predicates (family "ext"): the binary predicate e is declared external() with mode (+, -) and served by a
\* callback backed by the case's e-facts.  The engine stores only the e-facts it asked for, so the stores are compared
\* on all other predicates; the e-facts observed must be facts of the table.
IsExt(c) == "family" \in DOMAIN c /\ c.family = "ext"
ExtPred == "e"
Proj(c, S) == IF IsExt(c) THEN {f \in S : f.p # ExtPred} ELSE S
ObservedAll(c, v) == IF IsAgg(c) THEN {NormFact(f) : f \in SetOf(v.got)} ELSE SetOf(v.got)
Observed(c, v) == Proj(c, ObservedAll(c, v))
ExtInvented(c, v) == IsExt(c) /\ v.outcome = "ok" /\ ~({f \in ObservedAll(c, v) : f.p = ExtPred} \subseteq SetOf(c.edb))

(***************************************************************************)
(* Limit family (C17): the case carries the configured created-fact limit. *)
(* The model is computed with fuel = limit + |edb| + 2 rounds; every        *)
(* non-final round adds a fact, so a model that has not converged by then  *)
(* needs more created facts than the limit allows and an "ok" return would *)
(* be a truncated result.  created is what the counting store observed.    *)
(***************************************************************************)
HasLimit(c) == "limit" \in DOMAIN c /\ c.limit > 0
LimitFuel(c) == c.limit + Len(c.edb) + 2
Converged(c) == StratifiedModelFuel(RulesOf(c), SetOf(c.edb), LimitFuel(c))
                  = StratifiedModelFuel(RulesOf(c), SetOf(c.edb), LimitFuel(c) + 1)
CreatedBound(c) == 4 * (Len(c.rules) + 2) * (c.limit + 1)
LimitVerdict(c, v) ==
  IF v.outcome = "runaway" THEN "RUNAWAY"
  ELSE IF v.created > CreatedBound(c) THEN "OVER_BOUND"
  ELSE IF ~AllSafe(c) \/ ~Stratifiable(RulesOf(c)) THEN "fine"
  ELSE IF ~Converged(c) THEN (IF v.outcome = "ok" THEN "TRUNCATED_OK" ELSE "fine")
  ELSE LET M == StratifiedModelFuel(RulesOf(c), SetOf(c.edb), LimitFuel(c)) IN
       IF HasErr(RulesOf(c), M) THEN "fine"
       ELSE IF v.outcome = "ok" THEN (IF Observed(c, v) = Proj(c, M) THEN "fine" ELSE "MODEL_MISMATCH")
       ELSE IF v.outcome \in {"eval_err", "panic"} THEN "EVAL_FAILURE"
       ELSE "fine"

\* Incremental evaluation (family "incr": the base facts arrive in two batches, EvalProgram runs after
\* each, see SemiNaive!Resume and T01i): the final store is the model of all base facts for positive
\* programs; with negation or aggregation earlier conclusions may be stale and nothing is claimed.
IsIncr(c) == "family" \in DOMAIN c /\ c.family = "incr"
PositiveProg(c) == \A r \in RulesOf(c) : ~IsDo(r) /\ \A i \in DOMAIN r.b : r.b[i][1] # "neg"
Verdict(c, v) ==
  IF AnyAmbiguous(c) THEN "fine" ELSE
  IF IsIncr(c) /\ ~PositiveProg(c) THEN "fine" ELSE
  IF HasLimit(c) THEN LimitVerdict(c, v) ELSE
  IF ~AllSafe(c) THEN (IF v.outcome = "ok" THEN "ACCEPTED_UNSAFE" ELSE "fine")
  ELSE IF ~Stratifiable(RulesOf(c)) THEN (IF v.outcome = "ok" THEN "ACCEPTED_UNSTRATIFIABLE" ELSE "fine")
  ELSE IF HasErr(RulesOf(c), Expected(c)) THEN "fine"   \* run-time kind error: no model to compare with
  ELSE CASE v.outcome = "ok" -> IF ExtInvented(c, v) THEN "EXT_FACTS_INVENTED" ELSE IF Observed(c, v) = Proj(c, Expected(c)) THEN "fine" ELSE "MODEL_MISMATCH"
         [] v.outcome = "strat_err" -> "SPURIOUS_STRAT_ERR"
         [] v.outcome \in {"eval_err", "panic"} -> "EVAL_FAILURE"
         [] OTHER -> "fine"

Class(c) == IF AnyAmbiguous(c) THEN "ambiguous" ELSE IF IsIncr(c) /\ ~PositiveProg(c) THEN "nonmonotone" ELSE IF HasLimit(c) THEN (IF ~AllSafe(c) THEN "unsafe" ELSE IF ~Stratifiable(RulesOf(c)) THEN "unstrat"
                                 ELSE IF Converged(c) THEN "finite" ELSE "diverging") ELSE
            IF ~AllSafe(c) THEN "unsafe" ELSE IF ~Stratifiable(RulesOf(c)) THEN "unstrat"
            ELSE IF HasErr(RulesOf(c), Expected(c)) THEN "typeerr" ELSE "model"

\* C05: whatever the program means, two successful runs of (presentations of) it must agree
Inconsistent(c, i) ==
  /\ c.variants[i].outcome = "ok"
  /\ \E j \in 1..(i - 1) : c.variants[j].outcome = "ok" /\ Observed(c, c.variants[j]) # Observed(c, c.variants[i])
\* ... and a presentation (or another run of the same one) must not be rejected - by the parser, by analysis or by
\* stratification - when another one is evaluated
Rejected(c, i) ==
  /\ c.variants[i].outcome \in {"analysis_err", "parse_err", "strat_err"}
  /\ \E j \in DOMAIN c.variants : c.variants[j].outcome = "ok"
FullVerdict(c, i) ==
  LET v == Verdict(c, c.variants[i]) IN
  IF v = "fine" /\ Inconsistent(c, i) THEN "INCONSISTENT"
  ELSE IF v = "fine" /\ Rejected(c, i) THEN "PRESENTATION_REJECTED" ELSE v
Bad(c) == {i \in DOMAIN c.variants : FullVerdict(c, i) # "fine"}

\* what one more application of the plain rules to the observed store would add: if the observed
\* store is not closed under the rules, these are the facts the engine failed to derive next
\* (a diagnostic only: skipped when the observed store holds numbers on which the model's 32-bit
\* arithmetic could overflow, e.g. after a run-away evaluation)
Tame(got) == \A f \in got : \A i \in DOMAIN f.a :
               /\ f.a[i][1] # "bign"
               /\ f.a[i][1] = "n" => (f.a[i][2] < 30000 /\ f.a[i][2] > -30000)
NextMissing(c, v) ==
  LET got == SetOf(v.got) IN
  IF ~Tame(got) THEN {} ELSE
  (UNION {Derive(r, got) : r \in {x \in RulesOf(c) : ~IsDo(x)}}) \ got

Report(c) ==
  LET bad == Bad(c) IN
  /\ PrintT(<<"CLASS", c.id, Class(c)>>)
  /\ \A i \in bad :
       PrintT(<<"MISSING", c.id, i, ToJson(IF FullVerdict(c, i) \in {"TRUNCATED_OK", "MODEL_MISMATCH"} /\ ~IsAgg(c)
                                           THEN NextMissing(c, c.variants[i]) ELSE {})>>) /\
       PrintT(<<"MISMATCH", c.id, i, FullVerdict(c, i),
                IF Class(c) = "model" THEN ToJson(Expected(c))
                ELSE IF Class(c) = "finite" THEN ToJson(StratifiedModelFuel(RulesOf(c), SetOf(c.edb), LimitFuel(c)))
                ELSE "null">>)

Init == l = 1
Next == /\ l <= Len(Trace)
        /\ l' = l + 1
        /\ Report(Trace[l])
Spec == Init /\ [][Next]_l
Accepted == l = Len(Trace) + 1 => PrintT(<<"CONSUMED", Len(Trace)>>)
=============================================================================
