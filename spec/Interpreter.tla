------------------------------ MODULE Interpreter -----------------------------
(***************************************************************************)
(* Layer 3 - the interactive interpreter as a stack of fragments           *)
(* (interpreter/interpreter.go), property C16.                             *)
(*   frags   sequence of loaded fragments, each a set of file names        *)
(*   buffer  sequence of interactively defined texts (the topmost,         *)
(*           "interactive" fragment; empty = none)                         *)
(* Commands: Define(text), Load(files), Pop.  A library gives the clauses  *)
(* of every file and text and whether a text is syntactically valid.       *)
(* Visible state = which predicates are known + the stratified model of    *)
(* all live clauses; by construction it is a function of (frags, buffer),  *)
(* i.e. of the definitions that are still live, in order (T16).            *)
(***************************************************************************)
EXTENDS Semantics

\* clauses of a set of files / a sequence of texts
ClausesOfFiles(lib, fs) == UNION {Ran(lib.files[f]) : f \in fs}
ClausesOfTexts(lib, ts) == UNION {Ran(lib.texts[ts[i]].clauses) : i \in DOMAIN ts}
\* a library entry with a field decl stands for "Decl <head> descr [extensional()]": the predicate is known, later
\* fragments may add facts (not rules) to it
IsDecl(c) == "decl" \in DOMAIN c
HeadsOf(cs) == {<<c.h.p, Len(c.h.a)>> : c \in cs}
ExtPreds(cs) == {<<c.h.p, Len(c.h.a)>> : c \in {x \in cs : IsDecl(x)}}
FactOnly(cs, p) == \A c \in cs : (<<c.h.p, Len(c.h.a)>> = p) => (c.b = <<>> /\ ~IsDecl(c))
BodyRefs(cs) == UNION {{<<c.b[i][2].p, Len(c.b[i][2].a)>> : i \in {j \in DOMAIN c.b : c.b[j][1] \in {"pos", "neg"}}} : c \in cs}

LoadedClauses(lib, frags) == UNION {ClausesOfFiles(lib, frags[i]) : i \in DOMAIN frags}
LiveClauses(lib, frags, buffer) == LoadedClauses(lib, frags) \cup ClausesOfTexts(lib, buffer)
Known(lib, frags, buffer) == HeadsOf(LiveClauses(lib, frags, buffer))

\* a fragment is accepted when its texts are valid, every predicate it mentions is defined by it or by an
\* earlier live fragment, and it does not define a predicate that an earlier live fragment defines
Acceptable(cs, earlier) ==
  /\ BodyRefs(cs) \subseteq HeadsOf(cs) \cup HeadsOf(earlier)
  /\ \A p \in HeadsOf(cs) \cap HeadsOf(earlier) : p \in ExtPreds(earlier) /\ FactOnly(cs, p)
  /\ \A c \in cs : IsDecl(c) \/ Safe(c)
  /\ Stratifiable({c \in cs \cup earlier : c.b # <<>>})
DefineOK(lib, frags, buffer, t) ==
  /\ \A i \in DOMAIN buffer : lib.texts[buffer[i]].valid
  /\ lib.texts[t].valid
  /\ Acceptable(ClausesOfTexts(lib, Append(buffer, t)), LoadedClauses(lib, frags))
LoadOK(lib, frags, fs) == Acceptable(ClausesOfFiles(lib, fs), LoadedClauses(lib, frags))

\* effects: <<frags', buffer'>>
DefineEffect(lib, frags, buffer, t) == IF DefineOK(lib, frags, buffer, t) THEN <<frags, Append(buffer, t)>> ELSE <<frags, buffer>>
\* "::load pops the interactive buffer and loads the files"
LoadEffect(lib, frags, buffer, fs) == IF LoadOK(lib, frags, fs) THEN <<Append(frags, fs), <<>>>> ELSE <<frags, <<>>>>
PopEffect(frags, buffer) ==
  IF buffer # <<>> THEN <<frags, <<>>>>
  ELSE IF frags # <<>> THEN <<SubSeq(frags, 1, Len(frags) - 1), <<>>>> ELSE <<frags, buffer>>

Facts(cs) == {[p |-> c.h.p, a |-> c.h.a] : c \in {x \in cs : x.b = <<>> /\ ~IsDecl(x)}}
Rules(cs) == {c \in cs : c.b # <<>>}
Visible(lib, frags, buffer) ==
  LET cs == LiveClauses(lib, frags, buffer) IN StratifiedModel(Rules(cs), Facts(cs))
=============================================================================
