INIT Init
NEXT Next
CONSTANT Randomized = TRUE
CONSTANT Family = "rows"
INVARIANT Emit
CHECK_DEADLOCK FALSE
