---------------------------- MODULE MC_SemiNaive ----------------------------
(* Model-checking instance: the engine state machine over all safe, stratifiable programs of
   scope E1 with <= 2 rules (one-literal and two-literal bodies), plus the witness family of the
   lost-join defect (two facts born in the same later round joined by a third rule).            *)
EXTENDS SemiNaive, VocabE1

Z == Var("Z")
R(h, b) == [h |-> h, b |-> b, t |-> <<"none">>]
\* a0(1). e2(1,2). a(X):-a0(X). b(X):-a(X). c(X):-a(X). a(Y):-b(X),c(X),e2(X,Y).
LostJoin ==
  [rules |-> { R(A("a", <<X>>), <<<<"pos", A("a0", <<X>>)>>>>),
               R(A("b", <<X>>), <<<<"pos", A("a", <<X>>)>>>>),
               R(A("c", <<X>>), <<<<"pos", A("a", <<X>>)>>>>),
               R(A("a", <<Y>>), <<<<"pos", A("b", <<X>>)>>, <<"pos", A("c", <<X>>)>>, <<"pos", A("e2", <<X, Y>>)>>>>) },
   edb |-> {A("a0", <<N1>>), A("e2", <<N1, N2>>), A("e2", <<N2, N3>>)}, limit |-> 0]
\* two multi-premise aggregating rules with the same head (tmp-name collision family)
DoR(h, b, key, stmts) == [h |-> h, b |-> b, t |-> <<"do", key, stmts>>]
TwoCounts ==
  [rules |-> { DoR(A("cnt", <<Var("N")>>), <<<<"pos", A("e", <<X, Y>>)>>, <<"pos", A("f", <<X>>)>>>>, <<>>, <<<<"N", "fn:count", <<>>>>>>),
               DoR(A("cnt", <<Var("N")>>), <<<<"pos", A("e", <<X, Y>>)>>, <<"pos", A("f", <<Y>>)>>>>, <<>>, <<<<"N", "fn:count", <<>>>>>>) },
   edb |-> {A("e", <<N1, N2>>), A("e", <<N2, N3>>), A("e", <<N1, N3>>), A("f", <<N1>>), A("f", <<N3>>)}, limit |-> 0]

\* an aggregating rule and a plain recursive rule for the same predicate (do-feedback family)
RecAgg ==
  [rules |-> { DoR(A("agg", <<X, Var("N")>>), <<<<"pos", A("e", <<X, Y>>)>>>>, <<"X">>, <<<<"N", "fn:count", <<>>>>>>),
               R(A("agg", <<X, Var("N")>>), <<<<"pos", A("agg", <<Y, Var("N")>>)>>, <<"pos", A("e", <<Y, X>>)>>>>) },
   edb |-> {A("e", <<N1, N2>>), A("e", <<N1, N3>>), A("e", <<N3, N1>>)}, limit |-> 0]

E1Programs(k) ==
  LET SR == E1SafeRules(k) IN
  {[rules |-> rs, edb |-> e, limit |-> 0] :
      rs \in {x \in ({{r} : r \in SR} \cup {{r1, r2} : r1 \in SR, r2 \in SR}) : Stratifiable(x)},
      e \in E1Edbs}

\* the same programs under small created-fact limits (LimitTrip enabled)
ProgramsLimit == {[p EXCEPT !.limit = l] : p \in E1Programs(1) \cup {LostJoin, TwoCounts, RecAgg}, l \in {1, 3}}
ProgramsSmall == E1Programs(1) \cup {LostJoin, TwoCounts, RecAgg}
\* incremental evaluation: the base facts arrive in two batches (every split into two non-empty parts),
\* EvalProgram runs after each; positive programs only are judged (T01i)
Splits(e) == {s \in SUBSET e : s # {} /\ s # e}
ProgramsIncr == UNION {{[rules |-> p.rules, edb |-> s, edb2 |-> p.edb \ s, limit |-> 0] : s \in Splits(p.edb)} :
                   p \in {q \in E1Programs(1) \cup {LostJoin} : Positive(q.rules)}}
=============================================================================
