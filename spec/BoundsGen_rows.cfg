INIT Init
NEXT Next
CONSTANT Randomized = FALSE
CONSTANT Family = "rows"
INVARIANT Emit
CHECK_DEADLOCK FALSE
