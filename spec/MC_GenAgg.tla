------------------------------ MODULE MC_GenAgg ------------------------------
EXTENDS ProgGen, VocabAgg
AggExtra == AggRules \cup Readers
=============================================================================
