SPECIFICATION Spec
CONSTANTS
  MergeTiming = "eager"
  DoFeedback = "rerun"
  TmpName = "fresh"
  Programs <- ProgramsSmall
INVARIANTS T01 DeltaInv Sound T17
CHECK_DEADLOCK FALSE
