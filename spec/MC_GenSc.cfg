SPECIFICATION Spec
CONSTANTS
  Universe <- U
  MaxFacts = 1
  Randomized = FALSE
INVARIANT Emit
CHECK_DEADLOCK FALSE
