SPECIFICATION Spec
CONSTANTS
  Universe <- U
  Hot <- HotFacts
  MaxFacts = 1
  Randomized = FALSE
INVARIANT Emit
CHECK_DEADLOCK FALSE
