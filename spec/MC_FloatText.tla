---------------------------- MODULE MC_FloatText ----------------------------
(* T09f on the specification, and direction A: the scope of decimal floats that is replayed
   into ast.Float64 / Constant.String / the parser (vh floats).  Mantissas of 1, 2, 3 and 15
   significant digits; decimal exponents around every boundary of the two notations (-4, 0,
   the digit count, 21) and at the far ends of the normal range.                           *)
EXTENDS FloatText, Json
VARIABLE c
First == {1, 2, 9}
Mid == {0, 5, 9}
Last == {1, 5, 9}
Mants == {<<a>> : a \in First} \cup {<<a, b>> : a \in First, b \in Last}
         \cup {<<a, m, b>> : a \in First, m \in Mid, b \in Last}
         \cup {<<1, 2, 3, 4, 5, 6, 7, 8, 9, 0, 1, 2, 3, 4, 5>>, <<9, 0, 0, 0, 0, 0, 0, 0, 0, 0, 0, 0, 0, 0, 1>>}
Exps == {-300, -100, -20, -7, -6, -5, -4, -3, -2, -1, 0, 1, 2, 3, 4, 5, 6, 7, 8, 9, 14, 15, 16, 17, 20, 21, 22, 23, 24, 100, 300, 308}
Scope == {[neg |-> n, ds |-> m, e |-> x] : n \in BOOLEAN, m \in Mants, x \in Exps}
         \cup {[neg |-> n, ds |-> <<>>, e |-> 0] : n \in BOOLEAN}
Init == c = <<>>
Next == c = <<>> /\ c' \in Scope
T09f == c # <<>> => RoundTrips(c)
Emit == c # <<>> => PrintT(<<"CASE", ToJson(c)>>)
=============================================================================
