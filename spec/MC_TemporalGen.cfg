INIT Init
NEXT Next
CONSTANTS
  TFacts <- TF
  Nows <- NW
  Rules1 <- R1
  Rules2 <- R2
  MaxFacts = 1
  Randomized = FALSE
INVARIANT Emit
CHECK_DEADLOCK FALSE
