INIT Init
NEXT Next
CONSTANTS
  TFacts <- TF
  Nows <- NW
  Rules1 <- R1
  Rules2 <- R2
  MaxFacts = 1
  MinFacts = 0
  AllowOverlap = FALSE
  Randomized = FALSE
INVARIANT Emit
CHECK_DEADLOCK FALSE
