-------------------------------- MODULE ValGen --------------------------------
(***************************************************************************)
(* Layer 0 generator: Universe(2), all values of nesting depth <= 2 over   *)
(* small leaf sets that deliberately contain the confusable pairs (number  *)
(* 1 / float 1.0 / string "1"; name /a / string "/a"; pair / two-element   *)
(* list; [1] and the number 65792; empty string / empty list / empty map;  *)
(* a backslash followed by t / a TAB; 0.0 / -0.0; instants a second apart *)
(* around the epoch).                                                      *)
(* Used by C08 (equality, hash, print), C09 (print/parse) and C07.         *)
(***************************************************************************)
EXTENDS Values, Json, SequencesExt
VARIABLE done
Leaves == { Num(0), Num(1), Num(-1), Num(65792), Str(""), Str("a"), Str("1"), Str("/a"), Str("a\"b"), Str("two\nlines"), Str("C:\\temp"), Str("C:\temp"),
            Nm("/a"), Nm("/a/b"), Nm("/1"), <<"y", "a">>, <<"y", "">>, <<"f", "1">>, <<"f", "1.5">>, <<"f", "-0.5">>, <<"f", "0">>, <<"f", "-0">>, <<"f", "NaN">>, <<"f", "+Inf">>, <<"f", "-Inf">>,
            Tm(0), Tm(1), Du(0), Du(90),
            \* instants with a sub-second part on both sides of the epoch, one second apart (unit: 1 ns)
            Tm(-1), Tm(999999999), Tm(-999999999), Tm(-1000000000), Tm(-1000000001), Tm(1000000000), Du(-1), Du(-90) }
Small == { Num(1), Str("a"), Nm("/a"), <<"f", "1">> }
Depth1 ==
  {Pair(a, b) : a \in Small, b \in Small}
  \cup {List(<<>>)} \cup {List(<<a>>) : a \in Leaves} \cup {List(<<a, b>>) : a \in Small, b \in Small}
  \cup {MapV(<<>>)} \cup {MapV(<<<<k, v>>>>) : k \in Small, v \in Small}
  \cup {MapV(<<<<Num(1), v>>, <<Str("a"), w>>>>) : v \in Small, w \in Small}
  \cup {StructV(<<>>)} \cup {StructV(<<<<Nm("/a"), v>>>>) : v \in Small}
  \cup {StructV(<<<<Nm("/a"), v>>, <<Nm("/b"), w>>>>) : v \in {Num(1), Str("a")}, w \in {Num(1), Nm("/a")}}
D1Small == { Pair(Num(1), Str("a")), List(<<>>), List(<<Num(1)>>), List(<<Num(1), Str("a")>>), MapV(<<<<Num(1), Str("a")>>>>), StructV(<<<<Nm("/a"), Num(1)>>>>) }
Depth2 ==
  {Pair(a, b) : a \in D1Small, b \in {Num(1)} \cup D1Small}
  \cup {List(<<a>>) : a \in D1Small} \cup {List(<<a, Num(1)>>) : a \in D1Small}
  \cup {MapV(<<<<Num(1), v>>>>) : v \in D1Small} \cup {MapV(<<<<k, Num(1)>>>>) : k \in {Pair(Num(1), Str("a")), List(<<Num(1)>>)}}
  \cup {StructV(<<<<Nm("/a"), v>>>>) : v \in D1Small}
Universe2 == Leaves \cup Depth1 \cup Depth2
Init == done = FALSE
Next == ~done /\ done' = TRUE
Emit == done => PrintT(<<"CASE", ToJson([values |-> SetToSeq(Universe2)])>>)
=============================================================================
