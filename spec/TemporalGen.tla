------------------------------ MODULE TemporalGen -----------------------------
(* Direction A for C14: temporal programs as behaviours of a builder machine. *)
EXTENDS TemporalSem, Json, SequencesExt
CONSTANTS TFacts, Nows, Rules1, Rules2, MaxFacts, Randomized,
          MinFacts,      \* no program is chosen before this many base facts exist
          AllowOverlap   \* several stored intervals of one atom may overlap (C05: only order-independence is judged then)
VARIABLES tf, prog, now, phase
Coalesced(T) == \A x \in T, y \in T : (x # y /\ x[1] = y[1]) => (x[2][2] < y[2][1] \/ y[2][2] < x[2][1])
Init == tf = {} /\ prog = <<>> /\ now = 0 /\ phase = "facts"
AddFact == /\ phase = "facts" /\ Cardinality(tf) < MaxFacts
           /\ \E f \in (IF Randomized THEN {RandomElement({x \in TFacts : Cardinality(tf) >= 0})} ELSE TFacts \ tf) :
                (AllowOverlap \/ Coalesced(tf \cup {f})) /\ tf' = tf \cup {f}
           /\ UNCHANGED <<prog, now, phase>>
Choose == /\ phase = "facts" /\ Cardinality(tf) >= MinFacts
          /\ \E n \in (IF Randomized THEN {RandomElement({x \in Nows : Cardinality(tf) >= 0})} ELSE Nows),
                p \in (IF Randomized THEN {RandomElement({x \in Rules1 \cup Rules2 : Cardinality(tf) >= 0})} ELSE Rules1 \cup Rules2) :
               now' = n /\ prog' = p
          /\ phase' = "done" /\ UNCHANGED tf
Next == AddFact \/ Choose
TFSeq == [i \in DOMAIN SetToSeq(tf) |-> <<SetToSeq(tf)[i][1], SetToSeq(tf)[i][2]>>]
Emit == phase = "done" => PrintT(<<"CASE", ToJson([tfacts |-> TFSeq, now |-> now, rules |-> prog, overlap |-> AllowOverlap])>>)
=============================================================================
