SPECIFICATION Spec
CONSTANTS
  Heads = {}
  BodyLits = {}
  MaxBody = 1
  Transforms = {}
  MaxRules = 2
  FixedRules = {}
  EdbChoices <- BulkEdbs
  ExtraRules <- BulkRules
  Randomized = FALSE
  Keep <- KeepAll
INVARIANT Emit
CHECK_DEADLOCK FALSE
