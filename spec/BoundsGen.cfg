INIT Init
NEXT Next
CONSTANT Randomized = FALSE
INVARIANT Emit
CHECK_DEADLOCK FALSE
