INIT Init
NEXT Next
CONSTANTS
  MaxN = 5
  TreeMutant = "staleMaxEnd"
INVARIANT T13a
CHECK_DEADLOCK FALSE
