------------------------------- MODULE VocabE2 -------------------------------
(* Scope E2 (DESIGN.md C01): comparisons, equalities with constants / variables / function
   expressions, structured data (pairs, lists), let-transforms.  The vocabulary is kinded so
   that most programs are free of run-time kind errors: X, Y, V range over numbers, Z, T over
   structured values.  EDB: e/2, f/1 numbers, g/1 pairs and lists.  IDB: p/1, q/2 numbers, r/1 structured. *)
EXTENDS Semantics
X == Var("X")
Y == Var("Y")
Z == Var("Z")
T == Var("T")
V == Var("V")
W == Var("_")
A(p, args) == [p |-> p, a |-> args]
N(i) == Num(i)
E2Heads == {A("p", <<X>>), A("p", <<Y>>), A("p", <<V>>), A("q", <<X, Y>>), A("q", <<Y, X>>), A("q", <<X, V>>),
            A("r", <<Z>>), A("r", <<T>>)}
E2Lits ==
  { <<"pos", A("e", <<X, Y>>)>>, <<"pos", A("e", <<Y, X>>)>>, <<"pos", A("e", <<X, W>>)>>,
    <<"pos", A("f", <<X>>)>>, <<"pos", A("f", <<Y>>)>>, <<"pos", A("g", <<Z>>)>>,
    <<"pos", A("p", <<X>>)>>, <<"pos", A("p", <<Y>>)>>, <<"pos", A("q", <<X, Y>>)>>, <<"pos", A("q", <<Y, X>>)>>,
    <<"pos", A("r", <<Z>>)>>, <<"pos", A("e", <<X, N(2)>>)>>,
    <<"neg", A("p", <<X>>)>>, <<"neg", A("q", <<X, Y>>)>>, <<"neg", A("f", <<Y>>)>>, <<"neg", A("e", <<X, W>>)>>,
    <<"neg", A("r", <<Z>>)>>,
    <<"lt", X, Y>>, <<"le", X, Y>>, <<"gt", X, N(1)>>, <<"ge", Y, X>>,
    <<"eq", Y, Ap("fn:plus", <<X, N(1)>>)>>, <<"eq", X, N(2)>>, <<"eq", X, Y>>, <<"eq", Ap("fn:mult", <<X, N(2)>>), Y>>,
    <<"eq", Z, Ap("fn:pair", <<X, Y>>)>>, <<"eq", Z, Ap("fn:list", <<X, Y>>)>>,
    <<"ne", X, Y>>, <<"ne", X, N(2)>>,
    <<"bi", ":match_pair", <<Z, X, Y>>>>, <<"bi", ":match_cons", <<Z, X, T>>>>,
    <<"bi", ":list:member", <<X, Z>>>> }
NoTransforms == {<<"none">>}
E2Transforms == { <<"none">>, <<"let", <<<<"V", Ap("fn:plus", <<X, N(1)>>)>>>>>>,
                  <<"let", <<<<"T", Ap("fn:pair", <<X, X>>)>>>>>> }
E2Edbs ==
  { { A("e", <<N(1), N(2)>>), A("e", <<N(2), N(3)>>), A("e", <<N(2), N(2)>>), A("f", <<N(1)>>), A("f", <<N(3)>>),
      A("g", <<Pair(N(1), N(2))>>), A("g", <<List(<<N(2), N(1)>>)>>), A("g", <<List(<<>>)>>) },
    { A("e", <<N(1), N(1)>>), A("e", <<N(3), N(2)>>), A("f", <<N(2)>>),
      A("g", <<Pair(N(3), N(3))>>), A("g", <<List(<<N(1), N(2), N(3)>>)>>), A("g", <<List(<<N(3)>>)>>) } }
\* keep models finite: arithmetic / structure building only in rules without IDB body atoms
UsesArith(r) == \/ \E i \in DOMAIN r.b : r.b[i][1] = "eq" /\ (IsAp(r.b[i][2]) \/ IsAp(r.b[i][3]))
                \/ r.t[1] = "let"
HasIdbBody(r) == \E i \in DOMAIN r.b : r.b[i][1] = "pos" /\ r.b[i][2].p \in {"p", "q", "r"}
KeepE2(r) == ~(UsesArith(r) /\ HasIdbBody(r))
KeepE2Safe(r) == KeepE2(r) /\ Safe(r)
=============================================================================
