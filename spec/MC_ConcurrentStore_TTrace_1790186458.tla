---- MODULE MC_ConcurrentStore_TTrace_1790186458 ----
EXTENDS MC_ConcurrentStore, Sequences, TLCExt, Toolbox, Naturals, TLC

_expression ==
    LET MC_ConcurrentStore_TEExpression == INSTANCE MC_ConcurrentStore_TEExpression
    IN MC_ConcurrentStore_TEExpression!expression
----

_trace ==
    LET MC_ConcurrentStore_TETrace == INSTANCE MC_ConcurrentStore_TETrace
    IN MC_ConcurrentStore_TETrace!trace
----

_inv ==
    ~(
        TLCGet("level") = Len(_TETrace)
        /\
        cur = ([g1 |-> [op |-> [k |-> "merge", from |-> {"a", "b"}], todo |-> {"a", "b"}, acc |-> {}, snap |-> {}], g2 |-> [op |-> [k |-> "query"], todo |-> {"a", "b"}, acc |-> {}, snap |-> {}], g3 |-> [op |-> [k |-> "none"], todo |-> {}, acc |-> {}, snap |-> {}]])
        /\
        S = ({})
        /\
        pc = ([g1 |-> "in", g2 |-> "in", g3 |-> "idle"])
        /\
        lock = (<<"W", "g1">>)
        /\
        n = ([g1 |-> 0, g2 |-> 0, g3 |-> 0])
    )
----

_init ==
    /\ lock = _TETrace[1].lock
    /\ S = _TETrace[1].S
    /\ n = _TETrace[1].n
    /\ pc = _TETrace[1].pc
    /\ cur = _TETrace[1].cur
----

_next ==
    /\ \E i,j \in DOMAIN _TETrace:
        /\ \/ /\ j = i + 1
              /\ i = TLCGet("level")
        /\ lock  = _TETrace[i].lock
        /\ lock' = _TETrace[j].lock
        /\ S  = _TETrace[i].S
        /\ S' = _TETrace[j].S
        /\ n  = _TETrace[i].n
        /\ n' = _TETrace[j].n
        /\ pc  = _TETrace[i].pc
        /\ pc' = _TETrace[j].pc
        /\ cur  = _TETrace[i].cur
        /\ cur' = _TETrace[j].cur

\* Uncomment the ASSUME below to write the states of the error trace
\* to the given file in Json format. Note that you can pass any tuple
\* to `JsonSerialize`. For example, a sub-sequence of _TETrace.
    \* ASSUME
    \*     LET J == INSTANCE Json
    \*         IN J!JsonSerialize("MC_ConcurrentStore_TTrace_1790186458.json", _TETrace)

=============================================================================

 Note that you can extract this module `MC_ConcurrentStore_TEExpression`
  to a dedicated file to reuse `expression` (the module in the 
  dedicated `MC_ConcurrentStore_TEExpression.tla` file takes precedence 
  over the module `MC_ConcurrentStore_TEExpression` below).

---- MODULE MC_ConcurrentStore_TEExpression ----
EXTENDS MC_ConcurrentStore, Sequences, TLCExt, Toolbox, Naturals, TLC

expression == 
    [
        \* To hide variables of the `MC_ConcurrentStore` spec from the error trace,
        \* remove the variables below.  The trace will be written in the order
        \* of the fields of this record.
        lock |-> lock
        ,S |-> S
        ,n |-> n
        ,pc |-> pc
        ,cur |-> cur
        
        \* Put additional constant-, state-, and action-level expressions here:
        \* ,_stateNumber |-> _TEPosition
        \* ,_lockUnchanged |-> lock = lock'
        
        \* Format the `lock` variable as Json value.
        \* ,_lockJson |->
        \*     LET J == INSTANCE Json
        \*     IN J!ToJson(lock)
        
        \* Lastly, you may build expressions over arbitrary sets of states by
        \* leveraging the _TETrace operator.  For example, this is how to
        \* count the number of times a spec variable changed up to the current
        \* state in the trace.
        \* ,_lockModCount |->
        \*     LET F[s \in DOMAIN _TETrace] ==
        \*         IF s = 1 THEN 0
        \*         ELSE IF _TETrace[s].lock # _TETrace[s-1].lock
        \*             THEN 1 + F[s-1] ELSE F[s-1]
        \*     IN F[_TEPosition - 1]
    ]

=============================================================================



Parsing and semantic processing can take forever if the trace below is long.
 In this case, it is advised to uncomment the module below to deserialize the
 trace from a generated binary file.

\*
\*---- MODULE MC_ConcurrentStore_TETrace ----
\*EXTENDS MC_ConcurrentStore, IOUtils, TLC
\*
\*trace == IODeserialize("MC_ConcurrentStore_TTrace_1790186458.bin", TRUE)
\*
\*=============================================================================
\*

---- MODULE MC_ConcurrentStore_TETrace ----
EXTENDS MC_ConcurrentStore, TLC

trace == 
    <<
    ([cur |-> [g1 |-> [op |-> [k |-> "none"], todo |-> {}, acc |-> {}, snap |-> {}], g2 |-> [op |-> [k |-> "none"], todo |-> {}, acc |-> {}, snap |-> {}], g3 |-> [op |-> [k |-> "none"], todo |-> {}, acc |-> {}, snap |-> {}]],S |-> {},pc |-> [g1 |-> "idle", g2 |-> "idle", g3 |-> "idle"],lock |-> <<"free">>,n |-> [g1 |-> 0, g2 |-> 0, g3 |-> 0]]),
    ([cur |-> [g1 |-> [op |-> [k |-> "merge", from |-> {"a", "b"}], todo |-> {"a", "b"}, acc |-> {}, snap |-> {}], g2 |-> [op |-> [k |-> "none"], todo |-> {}, acc |-> {}, snap |-> {}], g3 |-> [op |-> [k |-> "none"], todo |-> {}, acc |-> {}, snap |-> {}]],S |-> {},pc |-> [g1 |-> "want", g2 |-> "idle", g3 |-> "idle"],lock |-> <<"free">>,n |-> [g1 |-> 0, g2 |-> 0, g3 |-> 0]]),
    ([cur |-> [g1 |-> [op |-> [k |-> "merge", from |-> {"a", "b"}], todo |-> {"a", "b"}, acc |-> {}, snap |-> {}], g2 |-> [op |-> [k |-> "query"], todo |-> {"a", "b"}, acc |-> {}, snap |-> {}], g3 |-> [op |-> [k |-> "none"], todo |-> {}, acc |-> {}, snap |-> {}]],S |-> {},pc |-> [g1 |-> "want", g2 |-> "in", g3 |-> "idle"],lock |-> <<"free">>,n |-> [g1 |-> 0, g2 |-> 0, g3 |-> 0]]),
    ([cur |-> [g1 |-> [op |-> [k |-> "merge", from |-> {"a", "b"}], todo |-> {"a", "b"}, acc |-> {}, snap |-> {}], g2 |-> [op |-> [k |-> "query"], todo |-> {"a", "b"}, acc |-> {}, snap |-> {}], g3 |-> [op |-> [k |-> "none"], todo |-> {}, acc |-> {}, snap |-> {}]],S |-> {},pc |-> [g1 |-> "in", g2 |-> "in", g3 |-> "idle"],lock |-> <<"W", "g1">>,n |-> [g1 |-> 0, g2 |-> 0, g3 |-> 0]])
    >>
----


=============================================================================

---- CONFIG MC_ConcurrentStore_TTrace_1790186458 ----
CONSTANTS
    Procs <- P3
    Atoms <- A2
    OpsOf <- Ops3
    SkipLock = { "query" }

INVARIANT
    _inv

CHECK_DEADLOCK
    \* CHECK_DEADLOCK off because of PROPERTY or INVARIANT above.
    FALSE

INIT
    _init

NEXT
    _next

CONSTANT
    _TETrace <- _trace

ALIAS
    _expression
=============================================================================
\* Generated on Wed Sep 23 18:00:58 UTC 2026