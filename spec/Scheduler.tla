------------------------------ MODULE Scheduler ------------------------------
(***************************************************************************)
(* The ready-literal scheduler as a nondeterministic state machine: at each*)
(* step ANY literal whose inputs are bound may be evaluated next.          *)
(* T04a: for a clause that Semantics!Safe accepts, every such order ends   *)
(*       with the same solution set (the clause has one meaning, so an     *)
(*       analyzer may reorder premises freely among ready orders);         *)
(* T04b: an unsafe clause gets stuck under every order or leaves a head    *)
(*       variable without a value.                                         *)
(***************************************************************************)
EXTENDS Semantics
CONSTANTS Clauses, Interp
VARIABLES c, rem, bound, S, stuck
vars == <<c, rem, bound, S, stuck>>

Init == c \in Clauses /\ rem = DOMAIN c.b /\ bound = {} /\ S = {NoSub} /\ stuck = FALSE
Pick(i) == /\ i \in rem /\ Ready(c.b[i], bound)
           /\ S' = UNION {Sols(c.b[i], s, Interp) : s \in S}
           /\ rem' = rem \ {i} /\ bound' = bound \cup LitVars(c.b[i])
           /\ UNCHANGED <<c, stuck>>
Stuck == /\ rem # {} /\ ~stuck /\ \A i \in rem : ~Ready(c.b[i], bound)
         /\ stuck' = TRUE /\ UNCHANGED <<c, rem, bound, S>>
Next == (\E i \in rem : Pick(i)) \/ Stuck
Spec == Init /\ [][Next]_vars

BodySafe(cl) == 0 \notin Ran(Schedule(cl.b, DOMAIN cl.b, {}))
T04a == (rem = {} /\ BodySafe(c)) => S = BodySols(c, Interp)
T04b == stuck => ~BodySafe(c)
T04c == (rem = {}) => BodySafe(c)
=============================================================================
