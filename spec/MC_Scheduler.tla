----------------------------- MODULE MC_Scheduler -----------------------------
EXTENDS Scheduler, VocabC04
Bodies(k) == UNION {[1..j -> C04Lits] : j \in 1..k}
SchedClauses == {[h |-> A("h", <<X, Y>>), b |-> bd, t |-> <<"none">>] : bd \in Bodies(3)}
SchedInterp == CHOOSE e \in C04Edbs : TRUE
=============================================================================
