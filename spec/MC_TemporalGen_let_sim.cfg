INIT Init
NEXT Next
CONSTANTS
  TFacts <- TF
  Nows <- NW
  Rules1 <- R4
  Rules2 <- R4
  MaxFacts = 3
  MinFacts = 1
  AllowOverlap = FALSE
  Randomized = TRUE
INVARIANT Emit
CHECK_DEADLOCK FALSE
