--------------------------- MODULE Trace_Concurrent ---------------------------
(***************************************************************************)
(* Direction B for C18: recorded invocation/response histories of the real *)
(* ConcurrentFactStore (several goroutines, call and return stamped by one *)
(* atomic counter) are checked for linearizability against the set         *)
(* specification FactStore.tla.  TLC searches the linearization points:    *)
(* Lin(p) is a silent step placed anywhere between p's call and return.    *)
(* A history is accepted iff some placement explains every reply; the      *)
(* REACHED lines report how far the search got.                            *)
(***************************************************************************)
EXTENDS FactStore, Json, IOUtils
Trace == ndJsonDeserialize(IOEnv.TRACE)
VARIABLES l, S, pend
vars == <<l, S, pend>>
SetOf(q) == {q[i] : i \in DOMAIN q}
NoDup(q) == \A i, j \in DOMAIN q : i # j => q[i] # q[j]
None == [st |-> "none"]

\* sequential meaning of one operation: <<new store, reply>>
SeqStep(op, s) ==
  CASE op.k = "add"   -> <<AddEffect({}, s, op.a), AddReply({}, s, op.a)>>
    [] op.k = "rm"    -> <<RemoveEffect(s, op.a), RemoveReply(s, op.a)>>
    [] op.k = "has"   -> <<s, HasReply({}, s, op.a)>>
    [] op.k = "query" -> <<s, QueryReply({}, s, op.pat)>>
    [] op.k = "merge" -> <<MergeEffect({}, s, SetOf(op.from)), TRUE>>
    \* the two remaining read operations of the interface: ListPredicates (every predicate that has a fact is listed;
    \* the indexed stores may go on listing one whose facts are gone) and EstimateFactCount (exact for these stores)
    [] op.k = "list"  -> <<s, {PredOf(f) : f \in s}>>
    [] op.k = "count" -> <<s, Cardinality(s)>>
ReplyMatches(op, res, r) ==
  CASE op.k = "query" -> SetOf(r) = res /\ NoDup(r)
    [] op.k = "merge" -> TRUE
    [] op.k = "list" -> res \subseteq {<<x[1], x[2]>> : x \in SetOf(r)}
    [] OTHER -> r = res

Init == l = 1 /\ S = {} /\ pend = <<>>
Reset == /\ l <= Len(Trace) /\ Trace[l].ev = "reset"
         /\ \A p \in DOMAIN pend : pend[p].st = "none"
         /\ S' = {} /\ pend' = [p \in SetOf(Trace[l].procs) |-> None] /\ l' = l + 1
CallEv == /\ l <= Len(Trace) /\ Trace[l].ev = "call"
          /\ pend' = [pend EXCEPT ![Trace[l].p] = [st |-> "called", op |-> Trace[l].op]]
          /\ l' = l + 1 /\ UNCHANGED S
Lin(p) == /\ pend[p].st = "called"
          /\ LET r == SeqStep(pend[p].op, S) IN
             /\ S' = r[1]
             /\ pend' = [pend EXCEPT ![p] = [st |-> "lin", op |-> pend[p].op, res |-> r[2]]]
          /\ UNCHANGED l
RetEv == /\ l <= Len(Trace) /\ Trace[l].ev = "ret"
         /\ LET p == Trace[l].p IN
            /\ pend[p].st = "lin" /\ ReplyMatches(pend[p].op, pend[p].res, Trace[l].r)
            /\ pend' = [pend EXCEPT ![p] = None]
         /\ l' = l + 1 /\ UNCHANGED S
Next == Reset \/ CallEv \/ RetEv \/ \E p \in DOMAIN pend : Lin(p)
\* progress report: which histories were fully explained
Reached == (l <= Len(Trace) /\ Trace[l].ev = "reset" /\ \A p \in DOMAIN pend : pend[p].st = "none")
              => PrintT(<<"REACHED", l>>)
Accepted == (l = Len(Trace) + 1 /\ \A p \in DOMAIN pend : pend[p].st = "none") => PrintT(<<"CONSUMED", Len(Trace)>>)
=============================================================================
