SPECIFICATION Spec
CONSTANTS
  MergeTiming = "eager"
  DoFeedback = "rerun"
  TmpName = "fresh"
  Programs <- ProgramsFull
INVARIANTS T01 DeltaInv Sound T17
CHECK_DEADLOCK FALSE
