SPECIFICATION Spec
CONSTANTS
  MergeTiming = "eager"
  TmpName = "fresh"
  Programs <- ProgramsFull
INVARIANTS T01 DeltaInv Sound T17
CHECK_DEADLOCK FALSE
