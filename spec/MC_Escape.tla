------------------------------ MODULE MC_Escape -------------------------------
(* T09 for every symbolic string of length <= 3 (strings) and byte strings incl. the invalid byte;
   the generator prints every string of length <= MaxLen for replay into the real printer/parser. *)
EXTENDS Escape, Json
CONSTANT MaxLen
VARIABLES s, isBytes
Strs(A, n) == UNION {[1..k -> A] : k \in 0..n}
Init == \/ (isBytes = FALSE /\ s \in Strs(Classes, MaxLen))
        \/ (isBytes = TRUE /\ s \in Strs(ByteClasses, MaxLen))
Next == UNCHANGED <<s, isBytes>>
Inv == T09(s, isBytes)
Emit == PrintT(<<"CASE", ToJson([classes |-> s, bytes |-> isBytes])>>)
=============================================================================
