------------------------------- MODULE VocabProv -------------------------------
(* Provenance family (C15): transform-free programs with recursion, mutual recursion, negation,
   inequalities and equalities (between variables, with a constant, with a function expression). *)
EXTENDS VocabE1
ProvLits == E1Lits \cup { <<"eq", X, Y>>, <<"eq", Y, N2>>, <<"eq", Y, Ap("fn:plus", <<X, N1>>)>>,
                          \* comparisons whose operand is a function application (they must be evaluated, not just substituted)
                          <<"ne", Y, Ap("fn:plus", <<X, N1>>)>>, <<"ne", Ap("fn:plus", <<Y, N1>>), X>> }
UsesFn(r) == \E i \in DOMAIN r.b : r.b[i][1] = "eq" /\ (IsAp(r.b[i][2]) \/ IsAp(r.b[i][3]))
HasIdb(r) == \E i \in DOMAIN r.b : r.b[i][1] = "pos" /\ r.b[i][2].p \in {"p", "q"}
KeepProv(r) == Safe(r) /\ ~(UsesFn(r) /\ HasIdb(r))
\* the cycle-cut family: base(1). p(X):-q(X). p(X):-base(X). q(X):-p(X). r(X):-p(X),q(X).
R0(h, b) == [h |-> h, b |-> b, t |-> <<"none">>]
CycleCut == { R0(A("p", <<X>>), <<<<"pos", A("q", <<X>>)>>>>), R0(A("p", <<X>>), <<<<"pos", A("f", <<X>>)>>>>),
              R0(A("q", <<X>>), <<<<"pos", A("p", <<X>>)>>>>), R0(A("r", <<X>>), <<<<"pos", A("p", <<X>>)>>, <<"pos", A("q", <<X>>)>>>>) }
\* wide bodies: four / six atom-shaped premises, the last one matching two facts under the same earlier bindings (a
\* variable that is not in the head), so that alternative proofs differ only in their last premise
Z == Var("Z")
WideBodies == { R0(A("w", <<X>>), <<<<"pos", A("f", <<Y>>)>>, <<"pos", A("e", <<Y, X>>)>>, <<"pos", A("e", <<X, Y>>)>>, <<"pos", A("e", <<X, Z>>)>>>>),
                R0(A("w", <<X>>), <<<<"pos", A("f", <<Y>>)>>, <<"pos", A("e", <<Y, X>>)>>, <<"pos", A("e", <<X, Y>>)>>, <<"pos", A("f", <<Y>>)>>, <<"pos", A("e", <<Y, X>>)>>, <<"pos", A("e", <<X, Z>>)>>>>),
                R0(A("v", <<X>>), <<<<"pos", A("w", <<X>>)>>, <<"neg", A("f", <<X>>)>>, <<"pos", A("e", <<X, Z>>)>>>>) }
ProvExtra == CycleCut \cup WideBodies
=============================================================================
