SPECIFICATION Spec
CONSTANTS
  Heads <- C04Heads
  BodyLits <- C04Lits
  MaxBody = 5
  Transforms <- C04Transforms
  MaxRules = 2
  FixedRules = {}
  EdbChoices <- C04Edbs
  ExtraRules = {}
  Randomized = TRUE
  Keep <- KeepAll
INVARIANT Emit
CHECK_DEADLOCK FALSE
