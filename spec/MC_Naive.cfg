SPECIFICATION Spec
CONSTANTS
  Programs <- ProgramsSmall
INVARIANTS T20 Sound
CHECK_DEADLOCK FALSE
