---------------------------- MODULE Trace_Frontend ----------------------------
(***************************************************************************)
(* Direction B for C10: each line is one input offered to the front end    *)
(* with the outcome of every stage.  Frontend.tla's contract: a stage ends *)
(* with a value or an error (or is skipped because an earlier stage        *)
(* returned an error) - never with a panic, never without returning.       *)
(***************************************************************************)
EXTENDS Naturals, Sequences, TLC, Json, IOUtils
Trace == ndJsonDeserialize(IOEnv.TRACE)
VARIABLE l
Outcomes == {"value", "error", "skipped"}
Init == l = 1
Next == /\ l <= Len(Trace) /\ l' = l + 1
        /\ LET c == Trace[l] IN
           /\ PrintT(<<"CLASS", c.id, IF \E i \in DOMAIN c.stages : c.stages[i].name \in {"analysis", "sc.lazy.queries"} /\ c.stages[i].outcome # "skipped" THEN "deep" ELSE "shallow">>)
           /\ \A i \in DOMAIN c.stages :
                c.stages[i].outcome \in Outcomes \/ PrintT(<<"MISMATCH", c.id, i, IF c.stages[i].outcome = "panic" THEN "PANIC" ELSE "NO_RETURN", "null">>)
Accepted == l = Len(Trace) + 1 => PrintT(<<"CONSUMED", Len(Trace)>>)
=============================================================================
