INIT Init
NEXT Next
CONSTANTS
  Lib <- L
  TextIds <- TI
  FileSets <- FS
  MaxLen = 4
  Randomized = FALSE
INVARIANTS EmitLib Emit T16
CHECK_DEADLOCK FALSE
