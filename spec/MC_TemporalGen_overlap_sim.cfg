INIT Init
NEXT Next
CONSTANTS
  TFacts <- TFO
  Nows <- NWO
  Rules1 <- R1
  Rules2 <- R2
  MaxFacts = 6
  MinFacts = 3
  AllowOverlap = TRUE
  Randomized = TRUE
INVARIANT Emit
CHECK_DEADLOCK FALSE
