------------------------------- MODULE VocabC04 -------------------------------
(* Clause shapes for C04 (DESIGN.md): every placement of variables and wildcards in heads,
   positive atoms, negated atoms, (in)equalities, comparisons, built-ins, function arguments and
   transforms, in every premise order.                                                      *)
EXTENDS Semantics
X == Var("X")
Y == Var("Y")
P == Var("P")
L == Var("L")
W == Var("_")
A(p, args) == [p |-> p, a |-> args]
N(i) == Num(i)
V == Var("V")
C == Var("C")
C04Heads == { A("h", <<X, Y>>), A("h", <<Y, X>>), A("h", <<X, X>>), A("h", <<X, N(1)>>), A("h", <<X, W>>),
              A("h", <<X, V>>), A("h", <<X, C>>), A("h", <<C, V>>) }
C04Lits ==
  { <<"pos", A("q", <<X>>)>>, <<"pos", A("q", <<Y>>)>>, <<"pos", A("r", <<X, Y>>)>>, <<"pos", A("r", <<X, W>>)>>,
    <<"pos", A("g", <<P>>)>>, <<"pos", A("l", <<L>>)>>,
    <<"neg", A("s", <<X>>)>>, <<"neg", A("s", <<Y>>)>>, <<"neg", A("s", <<W>>)>>, <<"neg", A("t", <<X, Y>>)>>,
    <<"neg", A("t", <<X, W>>)>>,
    <<"ne", X, Y>>, <<"lt", X, Y>>, <<"eq", X, Y>>, <<"eq", Y, X>>, <<"eq", X, N(1)>>, <<"eq", Y, Ap("fn:plus", <<X, N(1)>>)>>,
    \* a constant opposite a function application (either side), application = application, comparison with an application
    <<"eq", N(3), Ap("fn:plus", <<X, N(1)>>)>>, <<"eq", Ap("fn:plus", <<Y, N(1)>>), N(3)>>,
    <<"eq", Ap("fn:plus", <<X, N(1)>>), Ap("fn:plus", <<Y, N(0)>>)>>, <<"lt", Ap("fn:plus", <<X, N(1)>>), Y>>,
    \* comparisons of one variable with a constant / through an application (the variable may be an alias from X = Y)
    <<"ne", Y, N(2)>>, <<"lt", Y, N(3)>>, <<"ne", Ap("fn:plus", <<Y, N(1)>>), N(3)>>,
    <<"bi", ":match_pair", <<P, X, Y>>>>, <<"bi", ":list:member", <<X, L>>>> }
C04Transforms ==
  { <<"none">>,
    <<"let", <<<<"V", Ap("fn:plus", <<X, N(1)>>)>>>>>>,
    <<"let", <<<<"V", Ap("fn:plus", <<X, Y>>)>>>>>>,
    <<"let", <<<<"Y", Ap("fn:plus", <<X, N(1)>>)>>>>>>,
    <<"do", <<"X">>, <<<<"C", "fn:count", <<>>>>>>>>,
    <<"do", <<>>, <<<<"C", "fn:sum", <<Y>>>>>>>>,
    <<"do", <<"X">>, <<<<"C", "fn:count", <<>>>>, <<"V", "fn:plus", <<C, N(1)>>>>>>>> }
C04Edbs ==
  { { A("q", <<N(1)>>), A("q", <<N(2)>>), A("r", <<N(1), N(2)>>), A("r", <<N(2), N(2)>>), A("r", <<N(3), N(1)>>),
      A("s", <<N(2)>>), A("t", <<N(1), N(2)>>), A("t", <<N(2), N(1)>>),
      A("g", <<Pair(N(1), N(2))>>), A("g", <<Pair(N(2), N(2))>>), A("l", <<List(<<N(1), N(3)>>)>>) } }
\* three-literal bodies in every order, plain heads, no transform
C04Heads3 == { A("h", <<X, Y>>), A("h", <<X, X>>) }
C04None == {<<"none">>}
KeepAll(r) == TRUE
=============================================================================
