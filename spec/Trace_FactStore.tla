--------------------------- MODULE Trace_FactStore ----------------------------
(***************************************************************************)
(* Direction B for C06 (and the sequential half of C18): a recorded        *)
(* history of one store is accepted iff every reply is the reply of the    *)
(* set specification FactStore.tla.  Events:                               *)
(*   reset{kind, base, exact, removable}   add/rm/has{a, r}   query{pat, r}*)
(*   merge{from}   preds{r}   count{r}   alias{detail} (never accepted)     *)
(* On a rejected event the verdict is printed and the rest of that history *)
(* (up to the next reset) is skipped, later histories are still checked.   *)
(***************************************************************************)
EXTENDS FactStore, Json, IOUtils
Trace == ndJsonDeserialize(IOEnv.TRACE)
VARIABLES l, base, out, cfg, skipping
vars == <<l, base, out, cfg, skipping>>

SetOf(q) == {q[i] : i \in DOMAIN q}
NoDup(q) == \A i, j \in DOMAIN q : i # j => q[i] # q[j]

\* does event e agree with the specification in the current state?
Agrees(e) ==
  CASE e.ev = "add"   -> e.r = AddReply(base, out, e.a)
    [] e.ev = "rm"    -> e.r = RemoveReply(out, e.a)
    [] e.ev = "has"   -> e.r = HasReply(base, out, e.a)
    [] e.ev = "query" -> SetOf(e.r) = QueryReply(base, out, e.pat) /\ NoDup(e.r)
    [] e.ev = "merge" -> TRUE
    \* recorded when a merge source and the store it was merged into stopped being independent sets (the harness keeps
    \* every source alive, changes it after the merge and compares it after every later operation): never allowed
    [] e.ev = "alias" -> FALSE
    [] e.ev = "preds" -> PredsOK(base, out, SetOf(e.r))
    [] e.ev = "count" -> IF cfg.exact THEN e.r = Cardinality(Visible(base, out))
                         ELSE e.r >= Cardinality(Visible(base, out))
    [] OTHER -> FALSE
Effect(e) ==
  CASE e.ev = "add"   -> AddEffect(base, out, e.a)
    [] e.ev = "rm"    -> RemoveEffect(out, e.a)
    [] e.ev = "merge" -> MergeEffect(base, out, SetOf(e.from))
    [] OTHER -> out
Expected(e) ==
  CASE e.ev = "add"   -> ToJson(AddReply(base, out, e.a))
    [] e.ev = "rm"    -> ToJson(RemoveReply(out, e.a))
    [] e.ev = "has"   -> ToJson(HasReply(base, out, e.a))
    [] e.ev = "query" -> ToJson(QueryReply(base, out, e.pat))
    [] e.ev = "count" -> ToJson(Cardinality(Visible(base, out)))
    [] OTHER -> ToJson({PredOf(f) : f \in Visible(base, out)})

Init == l = 1 /\ base = {} /\ out = {} /\ cfg = [exact |-> TRUE] /\ skipping = FALSE
Reset == /\ l <= Len(Trace) /\ Trace[l].ev = "reset"
         /\ base' = SetOf(Trace[l].base) /\ out' = {} /\ cfg' = Trace[l] /\ skipping' = FALSE /\ l' = l + 1
Step  == /\ l <= Len(Trace) /\ Trace[l].ev # "reset" /\ ~skipping
         /\ l' = l + 1 /\ UNCHANGED <<base, cfg>>
         /\ IF Agrees(Trace[l]) THEN out' = Effect(Trace[l]) /\ skipping' = FALSE
            ELSE /\ PrintT(<<"MISMATCH", cfg.id, l, Trace[l].ev, Expected(Trace[l])>>)
                 /\ skipping' = TRUE /\ UNCHANGED out
Skip  == /\ l <= Len(Trace) /\ Trace[l].ev # "reset" /\ skipping
         /\ l' = l + 1 /\ UNCHANGED <<base, out, cfg, skipping>>
Next == Reset \/ Step \/ Skip
Accepted == l = Len(Trace) + 1 => PrintT(<<"CONSUMED", Len(Trace)>>)
=============================================================================
