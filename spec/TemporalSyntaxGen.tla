-------------------------- MODULE TemporalSyntaxGen --------------------------
(***************************************************************************)
(* Direction A for C09, temporal syntax: every combination of a temporal   *)
(* operator, its two bounds, the annotation of the operand and the         *)
(* annotation of the head, over all kinds of bound the grammar knows       *)
(* (duration, timestamp, now, variable, unbounded) - equal bounds (point   *)
(* intervals) included.  The cases are source texts; what the parser       *)
(* rejects is skipped by the harness, what it accepts must survive         *)
(* String() -> parse (Trace_Terms: roundtrip event).                       *)
(***************************************************************************)
EXTENDS Sequences, FiniteSets, TLC, Json
VARIABLE c
Bounds == {"0s", "7d", "90m", "2024-01-01T00:00:00", "2024-03-05T10:30:00", "now", "S", "E", "_"}
Ops == {"", "<-", "[-", "<+", "[+"}
Interval(a, b) == "[" \o a \o ", " \o b \o "]"
Anns == {""} \cup {"@" \o Interval(a, b) : a \in Bounds \ {"0s", "7d", "90m"}, b \in Bounds \ {"0s", "7d", "90m"}}
             \cup {"@[" \o a \o "]" : a \in {"2024-01-01T00:00:00", "now", "S"}}
HeadAnns == {"", "@[now]", "@[S, E]", "@[S]", "@[2024-01-01T00:00:00, 2024-01-01T00:00:00]", "@[2024-01-01T00:00:00, _]", "@[now, now]"}
OpPart == {""} \cup {o \o Interval(a, b) \o " " : o \in Ops \ {""}, a \in Bounds, b \in Bounds}
Src(h, o, an) == [source |-> "out(X)" \o h \o " :- span(S, E), " \o o \o "ev(X)" \o an \o "."]
\* every operator x bound x bound with two operand annotations, and every head x operand annotation under three operators
Cases == {Src(h, o, an) : h \in {"", "@[S, E]"}, o \in OpPart, an \in {"", "@[S, E]", "@[now]"}}
         \cup {Src(h, o, an) : h \in HeadAnns, o \in {"", "<-[0s, 7d] ", "[+[now, now] "}, an \in Anns}
Init == c = <<>>
Next == c = <<>> /\ c' \in Cases
Spec == Init /\ [][Next]_c
Emit == c # <<>> => PrintT(<<"CASE", ToJson(c)>>)
=============================================================================
