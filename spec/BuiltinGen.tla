------------------------------- MODULE BuiltinGen ------------------------------
(***************************************************************************)
(* C07: the laws of the built-ins, checked on the specification (T07), and *)
(* the vectors (function, arguments) replayed into the real functions.     *)
(*  T07a  x = (x div y) * y + (x mod y), |x mod y| < |y|, sign follows x   *)
(*  T07b  constructor / accessor inverses (pair, list, map, struct)        *)
(*  T07c  list membership enumerates exactly the elements                  *)
(*  T07d  <, <=, >, >= form one total order on numbers                     *)
(*  T07e  reducers do not depend on the order of the rows                  *)
(*  T07r  the same arithmetic laws at the int64 boundaries (Ring64.tla):   *)
(*        division law, additive inverse, distributivity, total order      *)
(***************************************************************************)
EXTENDS Semantics, Json, Ring64
CONSTANT Mode
VARIABLE c
Ints == (-3..3) \cup {7, -7, 100}
Nums == {Num(i) : i \in Ints}
\* ([], [0] and [[]] all hash to 0: equality must not rest on the hash)
Vals == {Num(0), Num(1), Num(-2), Str("a"), Nm("/k"), Pair(Num(1), Str("a")), List(<<>>), List(<<Num(0)>>), List(<<Num(1), Num(2)>>)}
Lists == {List(<<>>), List(<<Num(1)>>), List(<<Num(1), Num(2)>>), List(<<Num(2), Num(1), Num(2)>>), List(<<Str("a"), Num(1)>>), List(<<List(<<>>)>>), List(<<List(<<Num(0)>>)>>)}
Keys == {Num(1), Str("a"), Nm("/k")}
Arith == {[f |-> f, a |-> <<x, y>>] : f \in {"fn:plus", "fn:minus", "fn:mult", "fn:div", "fn:mod"}, x \in Nums, y \in Nums}
         \cup {[f |-> f, a |-> <<x, y, z>>] : f \in {"fn:plus", "fn:minus", "fn:mult", "fn:div"}, x \in {Num(7), Num(-7), Num(100)}, y \in {Num(2), Num(-3), Num(0)}, z \in {Num(2), Num(0), Num(-1)}}
         \cup {[f |-> f, a |-> <<x>>] : f \in {"fn:minus", "fn:div", "fn:plus", "fn:mult"}, x \in Nums}
Struct == {[f |-> "fn:pair", a |-> <<x, y>>] : x \in Vals, y \in Vals}
          \cup {[f |-> "fn:list", a |-> q] : q \in {<<>>} \cup {<<x>> : x \in Vals} \cup {<<x, y>> : x \in Vals, y \in {Num(1), Str("a")}}}
          \cup {[f |-> "fn:tuple", a |-> <<x, y, z>>] : x \in {Num(1), Str("a")}, y \in {Num(2)}, z \in Vals}
          \cup {[f |-> "fn:list:cons", a |-> <<x, l>>] : x \in Vals, l \in Lists}
          \cup {[f |-> "fn:list:append", a |-> <<l, x>>] : x \in Vals, l \in Lists}
          \cup {[f |-> "fn:list:len", a |-> <<l>>] : l \in Lists}
          \cup {[f |-> "fn:list:get", a |-> <<l, Num(i)>>] : l \in Lists, i \in -1..3}
          \cup {[f |-> "fn:list:contains", a |-> <<l, x>>] : l \in Lists, x \in Vals}
          \cup {[f |-> "fn:map", a |-> <<k, v>>] : k \in Keys, v \in Vals}
          \cup {[f |-> "fn:map", a |-> <<k, v, k2, v2>>] : k \in {Num(1)}, v \in {Num(5), Str("x")}, k2 \in {Str("a"), Nm("/k")}, v2 \in {Num(6)}}
          \cup {[f |-> "fn:map:get", a |-> <<MapV(<<<<Num(1), Num(5)>>, <<Str("a"), Num(6)>>>>), k>>] : k \in Keys \cup {Num(2)}}
          \cup {[f |-> "fn:map:get", a |-> <<MapV(<<<<k1, Str("one")>>>>), k2>>] : k1 \in {List(<<>>), List(<<Num(0)>>), Num(0)}, k2 \in {List(<<>>), List(<<Num(0)>>), Num(0), List(<<List(<<>>)>>)}}
          \cup {[f |-> "fn:struct", a |-> <<Nm("/a"), v>>] : v \in Vals}
          \cup {[f |-> "fn:struct:get", a |-> <<StructV(<<<<Nm("/a"), Num(5)>>, <<Nm("/b"), Str("x")>>>>), k>>] : k \in {Nm("/a"), Nm("/b"), Nm("/c")}}
Cmp == {[f |-> op, a |-> <<x, y>>] : op \in {"lt", "le", "gt", "ge"}, x \in Nums, y \in Nums}
\* reducer vectors: a bag of rows (values of the reduced variable) in two different orders
ListBags == {<<List(<<Num(0)>>), List(<<>>)>>, <<List(<<>>), List(<<Num(0)>>)>>, <<List(<<>>), List(<<List(<<>>)>>), List(<<>>)>>}
Bags == {<<Num(1)>>, <<Num(1), Num(2), Num(3)>>, <<Num(3), Num(1), Num(2)>>, <<Num(2), Num(2), Num(-7)>>, <<Num(-7), Num(2), Num(2)>>, <<Num(100), Num(7), Num(0), Num(-3)>>, <<Num(-3), Num(0), Num(7), Num(100)>>}
Red == {[f |-> r, a |-> b] : r \in {"fn:count", "fn:sum", "fn:min", "fn:max", "fn:avg", "fn:collect_distinct"}, b \in Bags}
       \cup {[f |-> r, a |-> b] : r \in {"fn:count", "fn:collect_distinct"}, b \in ListBags}
\* int64 boundary vectors: small numbers, MaxInt64 - d and MinInt64 + d as symbolic ring values <<"w", a, b>>
WVals == {Small(n) : n \in {-3, -2, -1, 0, 1, 2, 3}} \cup {Max64(d) : d \in 0..2} \cup {Min64(d) : d \in 0..2}
WArg(w) == <<"w", w[1], w[2]>>
RingVec == {[f |-> f, a |-> <<WArg(x), WArg(y)>>, ring |-> TRUE] :
               f \in {"fn:plus", "fn:minus", "fn:mult", "fn:div", "fn:mod", "lt", "le", "gt", "ge"}, x \in WVals, y \in WVals}
           \cup {[f |-> "fn:minus", a |-> <<WArg(x)>>, ring |-> TRUE] : x \in WVals}
           \cup {[f |-> f, a |-> <<WArg(x), WArg(y), WArg(z)>>, ring |-> TRUE] :
                    f \in {"fn:plus", "fn:mult", "fn:minus"}, x \in {Max64(0), Min64(0), Min64(1), Small(2)}, y \in {Max64(1), Min64(0), Small(-1), Small(3)}, z \in {Max64(0), Small(1), Small(-2)}}
           \cup {[f |-> r, a |-> <<WArg(x), WArg(y), WArg(z)>>, ring |-> TRUE] :
                    r \in {"fn:sum", "fn:min", "fn:max"}, x \in {Max64(0), Min64(1), Small(2)}, y \in {Max64(1), Min64(0), Small(-1)}, z \in {Max64(0), Min64(0), Small(1)}}
\* matching predicates: every solution (bindings of the output variables) - structured keys / elements included
MVals == {Num(1), Str("a"), Nm("/k"), List(<<Num(1)>>), List(<<>>), Pair(Num(1), Str("a")), MapV(<<<<Num(1), Num(2)>>>>)}
MMaps == {MapV(<<>>), MapV(<<<<Num(1), Str("one")>>>>), MapV(<<<<List(<<Num(1)>>), Str("l")>>, <<Pair(Num(1), Str("a")), Str("p")>>>>),
          MapV(<<<<MapV(<<<<Num(1), Num(2)>>>>), Num(5)>>, <<List(<<>>), Num(6)>>>>), Num(1)}
MStructs == {StructV(<<>>), StructV(<<<<Nm("/a"), Num(5)>>, <<Nm("/b"), List(<<Num(1)>>)>>>>), Str("a")}
MLists == {List(<<>>), List(<<Num(1), Num(1)>>), List(<<List(<<Num(1)>>), Pair(Num(1), Str("a")), List(<<>>)>>), Num(1)}
VV(n) == Var(n)
Match == {[f |-> ":match_entry", a |-> <<m, k, VV("V")>>] : m \in MMaps, k \in MVals}
         \cup {[f |-> ":match_entry", a |-> <<m, k, v>>] : m \in MMaps, k \in {Num(1), List(<<Num(1)>>)}, v \in {Str("one"), Str("l")}}
         \cup {[f |-> ":match_field", a |-> <<st, k, VV("V")>>] : st \in MStructs, k \in {Nm("/a"), Nm("/b"), Nm("/c")}}
         \cup {[f |-> ":match_pair", a |-> <<p, VV("A"), VV("B")>>] : p \in MVals}
         \cup {[f |-> ":match_pair", a |-> <<Pair(x, x), VV("A"), VV("A")>>] : x \in {Num(1), List(<<Num(1)>>)}}
         \cup {[f |-> ":match_cons", a |-> <<l, VV("H"), VV("T")>>] : l \in MLists}
         \cup {[f |-> ":match_nil", a |-> <<l>>] : l \in MLists}
         \cup {[f |-> ":list:member", a |-> <<VV("X"), l>>] : l \in MLists}
         \cup {[f |-> ":list:member", a |-> <<x, l>>] : x \in MVals, l \in MLists}
\* string and name functions and predicates over ASCII text; time and duration comparisons
Strs == {Str(""), Str("a"), Str("ab"), Str("abc"), Str("aaa"), Str("abab"), Str("b/c")}
Names == {Nm("/a"), Nm("/a/b"), Nm("/a/b/c"), Nm("/ab"), Nm("/ab/c")}
StrVec == {[f |-> "fn:string:concat", a |-> q] : q \in {<<>>} \cup {<<x>> : x \in Strs \cup {Num(-7), Nm("/a/b")}}
                                                       \cup {<<x, y>> : x \in {Str("a"), Str(""), Num(1), Nm("/a")}, y \in {Str("b"), Str(""), Num(-2), Nm("/x/y")}}
                                                       \cup {<<Str("a"), Num(1), Nm("/x/y"), Str("z")>>, <<Str("a"), List(<<>>)>>}}
          \cup {[f |-> "fn:string:replace", a |-> <<x, o, n, Num(k)>>] : x \in {Str("aaa"), Str("abab"), Str("abc"), Str("")}, o \in {Str("a"), Str("ab"), Str("x"), Str("")},
                                                                       n \in {Str(""), Str("b"), Str("xyz")}, k \in {-1, 0, 1, 2, 5}}
          \cup {[f |-> g, a |-> <<x>>] : g \in {"fn:name:to_string", "fn:name:root", "fn:name:tip", "fn:name:list"}, x \in Names \cup {Str("/a")}}
          \cup {[f |-> "fn:number:to_string", a |-> <<x>>] : x \in Nums \cup {Str("1")}}
          \cup {[f |-> g, a |-> <<x, y>>] : g \in {":string:starts_with", ":string:ends_with", ":string:contains"}, x \in Strs, y \in Strs}
          \cup {[f |-> ":match_prefix", a |-> <<x, y>>] : x \in Names \cup {Str("/a/b")}, y \in Names}
          \cup {[f |-> g, a |-> <<Tm(i), Tm(j)>>] : g \in {":time:lt", ":time:le", ":time:gt", ":time:ge"}, i \in 0..2, j \in 0..2}
          \cup {[f |-> g, a |-> <<Du(i), Du(j)>>] : g \in {":duration:lt", ":duration:le", ":duration:gt", ":duration:ge"}, i \in 0..2, j \in 0..2}
          \* the same orders on the wide timeline: index i stands for i * 2^62 ns (-2 is the earliest instant there is, differences overflow int64)
          \cup {[f |-> g, a |-> <<<<"tw", i>>, <<"tw", j>>>>] : g \in {":time:lt", ":time:le", ":time:gt", ":time:ge"}, i \in -2..1, j \in -2..1}
          \cup {[f |-> g, a |-> <<<<"dw", i>>, <<"dw", j>>>>] : g \in {":duration:lt", ":duration:le", ":duration:gt", ":duration:ge"}, i \in -2..1, j \in -2..1}
\* instants, durations, intervals: arithmetic, conversions, reducers, Allen's relations on all pairs of intervals over 0..3
TmS == {Tm(i) : i \in {-2, 0, 1, 5}}
DuS == {Du(i) : i \in {-3, 0, 2, 90}}
IvT == {Pair(Tm(s), Tm(e)) : s \in 0..3, e \in 0..3}   \* (s > e included: not an interval, judged only by the functions)
IvN == {Pair(Num(s), Num(e)) : s \in 0..3, e \in 0..3}
TimeVec == {[f |-> "fn:time:add", a |-> <<x, y>>] : x \in TmS \cup {Num(1)}, y \in DuS \cup {Num(1)}}
           \cup {[f |-> "fn:time:sub", a |-> <<x, y>>] : x \in TmS \cup {Du(1)}, y \in TmS \cup {Num(1)}}
           \cup {[f |-> "fn:duration:add", a |-> <<x, y>>] : x \in DuS \cup {Tm(1)}, y \in DuS \cup {Num(1)}}
           \cup {[f |-> "fn:duration:mult", a |-> <<x, y>>] : x \in DuS \cup {Num(2)}, y \in {Num(-2), Num(0), Num(3), Du(2)}}
           \cup {[f |-> g, a |-> <<x>>] : g \in {"fn:duration:nanos", "fn:duration:from_nanos", "fn:time:to_unix_nanos", "fn:time:from_unix_nanos"},
                                            x \in TmS \cup DuS \cup {Num(-7), Num(0), Num(65792), Str("1")}}
           \cup {[f |-> g, a |-> <<x>>] : g \in {"fn:interval:start", "fn:interval:end", "fn:interval:duration"}, x \in IvT \cup {Pair(Num(1), Num(2)), Tm(1), List(<<Tm(0), Tm(1)>>)}}
           \cup {[f |-> g, a |-> <<x, y>>] : g \in IntervalPreds, x \in {v \in IvT : v[2][2] <= v[3][2]}, y \in {v \in IvT : v[2][2] <= v[3][2]}}
           \cup {[f |-> g, a |-> <<x, y>>] : g \in IntervalPreds, x \in {v \in IvN : v[2][2] <= v[3][2]}, y \in {v \in IvN : v[2][2] <= v[3][2]}}
           \cup {[f |-> r, a |-> b] : r \in {"fn:time:max", "fn:time:min"}, b \in {<<Tm(1)>>, <<Tm(1), Tm(-2), Tm(5)>>, <<Tm(5), Tm(1), Tm(-2)>>, <<Tm(0), Tm(0)>>}}
           \cup {[f |-> r, a |-> b] : r \in {"fn:duration:max", "fn:duration:min", "fn:duration:sum"}, b \in {<<Du(2)>>, <<Du(2), Du(-3), Du(90)>>, <<Du(90), Du(2), Du(-3)>>, <<Du(0), Du(0)>>}}
Cases == CASE Mode = "time" -> TimeVec [] Mode = "str" -> StrVec [] Mode = "match" -> Match [] Mode = "arith" -> Arith [] Mode = "struct" -> Struct [] Mode = "cmp" -> Cmp [] Mode = "red" -> Red [] Mode = "ring" -> RingVec
Init == c = <<>>
Next == c = <<>> /\ c' \in Cases
Emit == c # <<>> => PrintT(<<"CASE", ToJson(c)>>)

\* ---------------------------------------------------------------- T07: laws on the specification
V(x) == x[2]
T07a == \A x \in Ints, y \in Ints \ {0} :
          /\ x = TDiv(x, y) * y + TMod(x, y)
          /\ Abs(TMod(x, y)) < Abs(y)
          /\ (TMod(x, y) = 0 \/ Sgn(TMod(x, y)) = Sgn(x))
          /\ ApplyFn("fn:div", <<Num(x), Num(0)>>) = ERR
\* T07t: instants and durations: adding then subtracting returns the duration, the conversions are mutually inverse;
\* the interval relations: converses, equals = starts + finishes = during both ways, disjoint intervals do not overlap,
\* meeting intervals share their common end point, and the reducers do not depend on the order of the bag
Ivs == {<<s, e>> : s \in 0..3, e \in 0..3}
T07t == /\ \A t \in TmS, d \in DuS : ApplyFn("fn:time:sub", <<ApplyFn("fn:time:add", <<t, d>>), t>>) = d
        /\ \A d \in DuS : ApplyFn("fn:duration:from_nanos", <<ApplyFn("fn:duration:nanos", <<d>>)>>) = d
        /\ \A t \in TmS : ApplyFn("fn:time:from_unix_nanos", <<ApplyFn("fn:time:to_unix_nanos", <<t>>)>>) = t
        /\ \A x \in Ivs, y \in Ivs : (x[1] <= x[2] /\ y[1] <= y[2]) =>
              /\ IntervalHolds(":interval:after", x, y) = IntervalHolds(":interval:before", y, x)
              /\ IntervalHolds(":interval:contains", x, y) = IntervalHolds(":interval:during", y, x)
              /\ IntervalHolds(":interval:equals", x, y) = (IntervalHolds(":interval:starts", x, y) /\ IntervalHolds(":interval:finishes", x, y))
              /\ IntervalHolds(":interval:equals", x, y) = (IntervalHolds(":interval:during", x, y) /\ IntervalHolds(":interval:during", y, x))
              /\ (IntervalHolds(":interval:before", x, y) \/ IntervalHolds(":interval:after", x, y)) = ~IntervalHolds(":interval:overlaps", x, y)
              /\ IntervalHolds(":interval:meets", x, y) => IntervalHolds(":interval:overlaps", x, y)
              /\ IntervalHolds(":interval:during", x, y) => IntervalHolds(":interval:overlaps", x, y)
        /\ Reduce("fn:duration:sum", <<Du(2), Du(-3), Du(90)>>) = Reduce("fn:duration:sum", <<Du(90), Du(2), Du(-3)>>)
        /\ Reduce("fn:time:max", <<Tm(1), Tm(-2), Tm(5)>>) = Reduce("fn:time:max", <<Tm(5), Tm(1), Tm(-2)>>)
T07b == /\ \A x \in Vals, y \in Vals :
             BuiltinSols(":match_pair", <<ApplyFn("fn:pair", <<x, y>>), Var("A"), Var("B")>>, NoSub) = {[A |-> x, B |-> y]}
        /\ \A x \in Vals, l \in Lists :
             BuiltinSols(":match_cons", <<ApplyFn("fn:list:cons", <<x, l>>), Var("H"), Var("T")>>, NoSub) = {[H |-> x, T |-> l]}
        /\ \A k \in Keys, v \in Vals : ApplyFn("fn:map:get", <<ApplyFn("fn:map", <<k, v>>), k>>) = v
        /\ \A v \in Vals : ApplyFn("fn:struct:get", <<ApplyFn("fn:struct", <<Nm("/a"), v>>), Nm("/a")>>) = v
        /\ \A l \in Lists : \A i \in DOMAIN l[2] : ApplyFn("fn:list:get", <<l, Num(i - 1)>>) = l[2][i]
        /\ \A l \in Lists : ApplyFn("fn:list:len", <<l>>) = Num(Len(l[2]))
T07c == \A l \in Lists : {s["X"] : s \in BuiltinSols(":list:member", <<Var("X"), l>>, NoSub)} = Ran(l[2])
T07d == \A x \in Nums, y \in Nums :
          /\ CmpHolds("lt", x, y) <=> ~CmpHolds("ge", x, y)
          /\ CmpHolds("gt", x, y) <=> CmpHolds("lt", y, x)
          /\ CmpHolds("le", x, y) <=> (CmpHolds("lt", x, y) \/ x = y)
          /\ (CmpHolds("le", x, y) /\ CmpHolds("le", y, x)) => x = y
T07e == \A r \in {"fn:count", "fn:sum", "fn:min", "fn:max", "fn:avg", "fn:collect_distinct"} :
          \A b1 \in Bags, b2 \in Bags :
             (Len(b1) = Len(b2) /\ \A v \in Ran(b1) \cup Ran(b2) : Cardinality({i \in DOMAIN b1 : b1[i] = v}) = Cardinality({i \in DOMAIN b2 : b2[i] = v}))
               => Reduce(r, b1) = Reduce(r, b2)
T07r == /\ \A x \in WVals, y \in WVals : DivModLaw(x, y) /\ Add(x, Neg(x)) = Small(0) /\ Sub(Add(x, y), y) = x
        /\ \A x \in WVals, y \in WVals, z \in WVals : Mul(x, Add(y, z)) = Add(Mul(x, y), Mul(x, z))
        /\ \A x \in WVals, y \in WVals : (Less(x, y) \/ Less(y, x) \/ x = y) /\ ~(Less(x, y) /\ Less(y, x))
        /\ \A x \in WVals, y \in WVals, z \in WVals : (Less(x, y) /\ Less(y, z)) => Less(x, z)
        \* remainder: smaller in magnitude than the divisor is implied for the small zone by T07a; its sign follows the dividend
        /\ \A x \in WVals, y \in WVals : (Mod(x, y) # Undef /\ ~IsZero(Mod(x, y))) => (IsNeg(Mod(x, y)) = IsNeg(x))
T07 == c = <<>> => (IF Mode = "ring" THEN T07r ELSE (T07a /\ T07b /\ T07c /\ T07d /\ T07e /\ T07t))
=============================================================================
