---------------------------- MODULE Trace_Builtins ----------------------------
(***************************************************************************)
(* Direction B for C07: each line is one application of a built-in         *)
(* function, comparison predicate or reducer by the real code; the result  *)
(* must be the value Builtins.tla defines (an error exactly where the spec *)
(* defines none, e.g. division by zero, index out of range, missing key).  *)
(***************************************************************************)
EXTENDS Semantics, Json, IOUtils
Trace == ndJsonDeserialize(IOEnv.TRACE)
VARIABLE l
IsRed(f) == f \in {"fn:count", "fn:sum", "fn:min", "fn:max", "fn:avg", "fn:collect_distinct"}
Expected(e) ==
  IF e.f \in {"lt", "le", "gt", "ge"} THEN <<"bool", CmpHolds(e.f, e.a[1], e.a[2])>>
  ELSE IF IsRed(e.f) THEN Reduce(e.f, e.a)
  ELSE ApplyFn(e.f, e.a)
\* observed values: a collected list is read as a set
Obs(e) == IF e.f = "fn:collect_distinct" /\ e.got[1] = "list" THEN <<"set", Ran(e.got[2]), Len(e.got[2])>> ELSE Norm(e.got)
OK(e) == LET x == Expected(e) IN
         IF IsErr(x) THEN e.err ELSE (~e.err /\ Obs(e) = Norm(x))
Init == l = 1
Next == /\ l <= Len(Trace) /\ l' = l + 1
        /\ PrintT(<<"CLASS", Trace[l].id, IF IsErr(Expected(Trace[l])) THEN "error" ELSE "value">>)
        /\ OK(Trace[l]) \/ PrintT(<<"MISMATCH", Trace[l].id, 1, "WRONG_RESULT", ToJson(Expected(Trace[l]))>>)
Accepted == l = Len(Trace) + 1 => PrintT(<<"CONSUMED", Len(Trace)>>)
=============================================================================
