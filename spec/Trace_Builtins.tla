---------------------------- MODULE Trace_Builtins ----------------------------
(***************************************************************************)
(* Direction B for C07: each line is one application of a built-in         *)
(* function, comparison predicate or reducer by the real code; the result  *)
(* must be the value Builtins.tla defines (an error exactly where the spec *)
(* defines none, e.g. division by zero, index out of range, missing key).  *)
(***************************************************************************)
EXTENDS Semantics, Json, IOUtils, Ring64
Trace == ndJsonDeserialize(IOEnv.TRACE)
VARIABLE l
IsRed(f) == f \in {"fn:count", "fn:sum", "fn:min", "fn:max", "fn:avg", "fn:collect_distinct",
                   "fn:time:max", "fn:time:min", "fn:duration:max", "fn:duration:min", "fn:duration:sum"}
\* int64 boundary vectors (Ring64.tla): arguments and numeric results are <<"w", a, b>>
IsRing(e) == "ring" \in DOMAIN e /\ e.ring
WOf(x) == W(x[2], x[3])
RECURSIVE FoldW(_, _, _, _)
FoldW(op, a, i, acc) ==
  IF i > Len(a) \/ acc = Undef THEN acc
  ELSE FoldW(op, a, i + 1, CASE op = "fn:plus" -> Add(acc, WOf(a[i])) [] op = "fn:sum" -> Add(acc, WOf(a[i]))
                                  [] op = "fn:minus" -> Sub(acc, WOf(a[i])) [] op = "fn:mult" -> Mul(acc, WOf(a[i]))
                                  [] op = "fn:div" -> Div(acc, WOf(a[i])) [] op = "fn:mod" -> Mod(acc, WOf(a[i]))
                                  [] op = "fn:min" -> (IF Less(WOf(a[i]), acc) THEN WOf(a[i]) ELSE acc)
                                  [] op = "fn:max" -> (IF Less(acc, WOf(a[i])) THEN WOf(a[i]) ELSE acc))
RingExpected(e) ==   \* <<"w", a, b>> | <<"bool", v>> | <<"err">> | <<"undef">>
  LET x == WOf(e.a[1]) IN
  IF e.f \in {"lt", "le", "gt", "ge"} THEN
       LET y == WOf(e.a[2]) IN
       <<"bool", CASE e.f = "lt" -> Less(x, y) [] e.f = "le" -> Less(x, y) \/ x = y [] e.f = "gt" -> Less(y, x) [] e.f = "ge" -> Less(y, x) \/ x = y>>
  ELSE IF e.f = "fn:minus" /\ Len(e.a) = 1 THEN <<"w", Neg(x)[1], Neg(x)[2]>>
  ELSE IF e.f \in {"fn:div", "fn:mod"} /\ \E i \in 2..Len(e.a) : IsZero(WOf(e.a[i])) THEN <<"err">>
  ELSE LET r == FoldW(e.f, e.a, 2, x) IN IF r = Undef THEN <<"undef">> ELSE <<"w", r[1], r[2]>>
RingOK(e) == LET x == RingExpected(e) IN
             IF x = <<"undef">> THEN TRUE
             ELSE IF x = <<"err">> THEN e.err
             ELSE ~e.err /\ e.got[1] = x[1] /\ e.got = x
\* matching predicates: the set of solutions, each a set of <<variable, value>> bindings
IsMatch(e) == e.f \in {":match_entry", ":match_field", ":match_pair", ":match_cons", ":match_nil", ":list:member"}
SolSet(e) == {{<<v, s[v]>> : v \in DOMAIN s} : s \in BuiltinSols(e.f, e.a, NoSub)}
ObsSols(e) == {{<<b[1], Norm(b[2])>> : b \in Ran(sol)} : sol \in Ran(e.sols)}
\* (a scrutinee of the wrong kind may be reported as an error instead of "no match")
MatchOK(e) == IF e.err THEN SolSet(e) = {} ELSE ObsSols(e) = {{<<b[1], Norm(b[2])>> : b \in sol} : sol \in SolSet(e)}
\* ground predicates: string tests, name prefix, time and duration comparisons (one total order per type)
IsGroundPred(e) == e.f \in {":string:starts_with", ":string:ends_with", ":string:contains", ":match_prefix",
                             ":time:lt", ":time:le", ":time:gt", ":time:ge", ":duration:lt", ":duration:le", ":duration:gt", ":duration:ge"} \cup IntervalPreds
\* an interval argument: a pair of instants or (as the implementation reads it) of plain numbers, start <= end
IsIvArg(v) == IsPair(v) /\ v[2][1] = v[3][1] /\ v[2][1] \in {"t", "n"} /\ v[2][2] <= v[3][2]
PredDefined(e) ==
  CASE e.f \in {":string:starts_with", ":string:ends_with", ":string:contains"} -> IsStr(e.a[1]) /\ IsStr(e.a[2])
    [] e.f = ":match_prefix" -> IsName(e.a[2])
    [] e.f \in IntervalPreds -> IsIvArg(e.a[1]) /\ IsIvArg(e.a[2]) /\ e.a[1][2][1] = e.a[2][2][1]
    [] e.f \in {":time:lt", ":time:le", ":time:gt", ":time:ge"} -> e.a[1][1] \in {"t", "tw"} /\ e.a[2][1] = e.a[1][1]
    [] OTHER -> e.a[1][1] \in {"d", "dw"} /\ e.a[2][1] = e.a[1][1]
PredHolds(e) ==
  CASE e.f = ":string:starts_with" -> StartsWith(e.a[1][2], e.a[2][2])
    [] e.f = ":string:ends_with" -> EndsWith(e.a[1][2], e.a[2][2])
    [] e.f = ":string:contains" -> ContainsStr(e.a[1][2], e.a[2][2])
    [] e.f = ":match_prefix" -> IsName(e.a[1]) /\ BelowPrefix(e.a[1][2], e.a[2][2])
    [] e.f \in IntervalPreds -> IntervalHolds(e.f, <<e.a[1][2][2], e.a[1][3][2]>>, <<e.a[2][2][2], e.a[2][3][2]>>)
    [] e.f \in {":time:lt", ":duration:lt"} -> e.a[1][2] < e.a[2][2]
    [] e.f \in {":time:le", ":duration:le"} -> e.a[1][2] <= e.a[2][2]
    [] e.f \in {":time:gt", ":duration:gt"} -> e.a[1][2] > e.a[2][2]
    [] OTHER -> e.a[1][2] >= e.a[2][2]
GroundOK(e) == IF ~PredDefined(e) THEN TRUE ELSE (~e.err /\ ((Len(e.sols) > 0) = PredHolds(e)))
Expected(e) ==
  IF e.f \in {"lt", "le", "gt", "ge"} THEN <<"bool", CmpHolds(e.f, e.a[1], e.a[2])>>
  ELSE IF IsRed(e.f) THEN Reduce(e.f, e.a)
  ELSE ApplyFn(e.f, e.a)
\* observed values: a collected list is read as a set
Obs(e) == IF e.f = "fn:collect_distinct" /\ e.got[1] = "list" THEN <<"set", Ran(e.got[2]), Len(e.got[2])>> ELSE Norm(e.got)
OK(e) == LET x == Expected(e) IN
         IF IsErr(x) THEN e.err ELSE (~e.err /\ Obs(e) = Norm(x))
Init == l = 1
Next == /\ l <= Len(Trace) /\ l' = l + 1
        /\ IF IsGroundPred(Trace[l])
           THEN /\ PrintT(<<"CLASS", Trace[l].id, IF PredDefined(Trace[l]) THEN "pred" ELSE "pred_undefined">>)
                /\ GroundOK(Trace[l]) \/ PrintT(<<"MISMATCH", Trace[l].id, 1, "WRONG_RESULT", ToJson(PredHolds(Trace[l]))>>)
           ELSE IF IsMatch(Trace[l])
           THEN /\ PrintT(<<"CLASS", Trace[l].id, IF SolSet(Trace[l]) = {} THEN "nomatch" ELSE "match">>)
                /\ MatchOK(Trace[l]) \/ PrintT(<<"MISMATCH", Trace[l].id, 1, "WRONG_RESULT", ToJson(SolSet(Trace[l]))>>)
           ELSE IF IsRing(Trace[l])
           THEN /\ PrintT(<<"CLASS", Trace[l].id, IF RingExpected(Trace[l]) = <<"undef">> THEN "ring_unjudged" ELSE IF RingExpected(Trace[l]) = <<"err">> THEN "error" ELSE "ring">>)
                /\ RingOK(Trace[l]) \/ PrintT(<<"MISMATCH", Trace[l].id, 1, "WRONG_RESULT", ToJson(RingExpected(Trace[l]))>>)
           ELSE /\ PrintT(<<"CLASS", Trace[l].id, IF IsErr(Expected(Trace[l])) THEN "error" ELSE "value">>)
                /\ OK(Trace[l]) \/ PrintT(<<"MISMATCH", Trace[l].id, 1, "WRONG_RESULT", ToJson(Expected(Trace[l]))>>)
Accepted == l = Len(Trace) + 1 => PrintT(<<"CONSUMED", Len(Trace)>>)
=============================================================================
