------------------------------ MODULE MC_Naive ------------------------------
EXTENDS Naive, VocabE1
E1Programs(k) ==
  LET SR == E1SafeRules(k) IN
  {[rules |-> rs, edb |-> e] :
      rs \in {x \in ({{r} : r \in SR} \cup {{r1, r2} : r1 \in SR, r2 \in SR}) : Stratifiable(x)},
      e \in E1Edbs}
ProgramsSmall == E1Programs(1)
=============================================================================
