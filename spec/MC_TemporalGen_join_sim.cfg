INIT Init
NEXT Next
CONSTANTS
  TFacts <- TFJ
  Nows <- NW
  Rules1 <- R3
  Rules2 <- R3
  MaxFacts = 5
  MinFacts = 2
  AllowOverlap = FALSE
  Randomized = TRUE
INVARIANT Emit
CHECK_DEADLOCK FALSE
