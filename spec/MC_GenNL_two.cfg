SPECIFICATION Spec
CONSTANTS
  Heads <- NLHeads
  BodyLits <- NLLits
  MaxBody = 2
  Transforms <- NLTransforms
  MaxRules = 2
  FixedRules <- NLFixed
  EdbChoices <- NLEdbs
  ExtraRules = {}
  Randomized = FALSE
  Keep <- KeepSafe
INVARIANT Emit
CHECK_DEADLOCK FALSE
