INIT Init
NEXT Next
CONSTANT Mode = "str"
INVARIANTS Emit T07
CHECK_DEADLOCK FALSE
