------------------------------ MODULE MC_GenBad ------------------------------
(* Ill-formed but parseable programs (C10) as an instance of the program grammar machine. *)
EXTENDS ProgGen, VocabBad
=============================================================================
