INIT Init
NEXT Next
CONSTANTS
  CRMode = "raw"
  MaxLen = 3
INVARIANT Inv
CHECK_DEADLOCK FALSE
