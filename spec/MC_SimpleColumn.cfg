INIT Init
NEXT Next
INVARIANT T19
CHECK_DEADLOCK FALSE
