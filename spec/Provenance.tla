------------------------------ MODULE Provenance ------------------------------
(***************************************************************************)
(* Layer 3 - what a proof IS (property C15): an independent checker for    *)
(* the proof trees returned by provenance.Explain / BuildFromRecording.    *)
(* A node is a record                                                      *)
(*   [id, fact, kind, rule, bindings, premises, partial]                   *)
(* kind "edb" / "absence" are leaves; "derived" applies `rule` (a clause   *)
(* of the analysed program) under `bindings`; premises are the sub-proofs  *)
(* of the rule's positive and negated body atoms, in body order.           *)
(***************************************************************************)
EXTENDS Semantics

Sub(bs) == [x \in {bs[i][1] : i \in DOMAIN bs} |-> bs[CHOOSE i \in DOMAIN bs : bs[i][1] = x][2]]
AtomLits(body) == SelectSeq(body, LAMBDA l : l[1] \in {"pos", "neg"})

\* ancestors: facts on the path from the root (no fact may be its own ancestor)
RECURSIVE ValidProof(_, _, _, _, _, _)
\* base: the facts the program states (unit clauses) - leaves also when their predicate has rules
ValidProof(n, rules, edbPreds, base, M, anc) ==
  /\ n.fact \notin anc
  /\ CASE n.kind = "edb"     -> n.fact \in M /\ (<<n.fact.p, Len(n.fact.a)>> \in edbPreds \/ n.fact \in base) /\ n.premises = <<>>
       [] n.kind = "absence" -> n.fact \notin M /\ n.premises = <<>>
       [] n.kind = "derived" ->
            /\ n.rule \in rules
            /\ LET s0 == Sub(n.bindings)
                   c == n.rule
                   lits == AtomLits(c.b)
                   \* extend the reported bindings over the body (equalities may bind further variables)
                   fin == SolveOrder(c.b, [i \in DOMAIN c.b |-> i], {s0}, M) IN
               /\ Len(n.premises) = Len(lits)
               /\ \E s \in fin :
                    /\ Inst(c.h, s) = n.fact
                    /\ \A k \in DOMAIN lits :
                         /\ n.premises[k].fact = Inst(lits[k][2], s)
                         /\ (lits[k][1] = "neg") <=> (n.premises[k].kind = "absence")
               /\ \A k \in DOMAIN n.premises : ValidProof(n.premises[k], rules, edbPreds, base, M, anc \cup {n.fact})
       [] n.kind \in {"let", "do"} -> TRUE     \* transform nodes (recorded mode) are not judged here
       [] OTHER -> FALSE

RECURSIVE Complete(_)
Complete(n) == ~n.partial /\ \A k \in DOMAIN n.premises : Complete(n.premises[k])

\* identifiers depend only on content: strip the ids, equal content must have had equal ids
RECURSIVE Strip(_)
Strip(n) == [fact |-> n.fact, kind |-> n.kind, rule |-> n.rule, premises |-> [k \in DOMAIN n.premises |-> Strip(n.premises[k])]]
RECURSIVE Nodes(_)
Nodes(n) == {n} \cup UNION {Nodes(n.premises[k]) : k \in DOMAIN n.premises}
IdsByContent(ns) == \A a \in ns, b \in ns : Strip(a) = Strip(b) => a.id = b.id
=============================================================================
