------------------------------- MODULE BoundsGen ------------------------------
(* Direction A for C11: programs with declared bounds.  A case picks the bound of an extensional predicate src,
   the bound of an intensional predicate dst, a rule template that copies, projects, constructs, destructures,
   joins or computes, base facts for src admitted by its bound (+ optionally one that is not admitted) and an
   optional base fact written for dst directly.                                                               *)
EXTENDS Types, Json, SequencesExt
CONSTANTS Randomized,
          Family        \* "single": one bound row per predicate; "rows": several rows and premises that refine a bound variable
VARIABLE c
Cn(parts) == <<"cn", parts>>
T(x) == <<"ty", x>>
SrcTypes == { T("/number"), T("/string"), T("/name"), T("/any"), T("/time"), T("/duration"), <<"pre", <<"foo">>>>, <<"pre", <<"foobar">>>>, <<"pre", <<"bar">>>>,
              <<"union", <<T("/number"), T("/string")>>>>, <<"union", <<<<"pre", <<"foo">>>>, <<"pre", <<"bar">>>>>>>>, <<"tpair", T("/number"), T("/string")>>, <<"tpair", <<"pre", <<"foo">>>>, T("/number")>>,
              <<"tlist", T("/number")>>, <<"tlist", <<"pre", <<"foo">>>>>>, <<"tmap", T("/string"), T("/number")>>,
              <<"tstruct", <<<<"a", T("/number"), FALSE>>>>>>, <<"tstruct", <<<<"a", T("/number"), FALSE>>, <<"b", T("/string"), FALSE>>>>>>,
              \* an optional field; a map keyed by a name prefix
              <<"tstruct", <<<<"a", T("/number"), FALSE>>, <<"b", T("/string"), TRUE>>>>>>, <<"tmap", <<"pre", <<"foo">>>>, T("/number")>> }
DstTypes == SrcTypes \cup { <<"pre", <<"foo", "a">>>>, <<"pre", <<"foo", "c">>>>, <<"tpair", T("/any"), T("/any")>>, <<"tlist", T("/any")>>, <<"tmap", T("/any"), T("/number")>>,
                            <<"union", <<<<"pre", <<"foo">>>>, T("/number")>>>> }
Templates == {"copy", "pair_with_string", "fst", "snd", "plus1", "join_other", "list_of", "member", "cons_self", "name_to_string", "struct_get_a", "map_of", "none",
              "neg_prefix_below", "neg_prefix_eq", "pos_prefix_below", "pos_prefix_eq", "neg_prefix_other",
              \* literals that tell nothing (or only negative things) about a type: inequalities with a variable of another
              \* predicate and with constants, a negated atom; list construction from a typed head / element; list
              \* destructuring; a prefix spelled like a base type; a head argument with input mode; a two-column join
              \* whose rows are feasible column-wise only; a tagged union
              "ne_nums", "ne_const_name", "ne_const_num", "neg_nums", "cons_head_var", "append_var", "match_cons_head", "match_cons_tail",
              "prefix_number", "copy_modein", "two_col_rows", "tagged_fact"}
Consts == { Num(0), Num(1), Str("a"), Str("x"), Tm(1), Du(90), Cn(<<"time", "zone">>), Cn(<<"duration", "x">>), Cn(<<"foo", "a">>), Cn(<<"foo", "a", "b">>), Cn(<<"foo", "c">>), Cn(<<"foobar", "x">>), Cn(<<"bar">>), Cn(<<"bar", "b">>),
            Pair(Num(1), Str("a")), Pair(Cn(<<"foo", "a">>), Num(1)), Pair(Str("a"), Num(1)),
            List(<<>>), List(<<Num(1), Num(0)>>), List(<<Cn(<<"foo", "a">>)>>), List(<<Str("a")>>),
            MapV(<<<<Str("k"), Num(1)>>>>), MapV(<<<<Num(1), Num(1)>>>>), MapV(<<<<Cn(<<"bar", "b">>), Num(1)>>>>), MapV(<<<<Cn(<<"foo", "a">>), Num(1)>>>>), MapV(<<<<Cn(<<"bar">>), Num(1)>>>>), Cn(<<"number", "x">>),
            StructV(<<<<Cn(<<"a">>), Num(1)>>>>), StructV(<<<<Cn(<<"a">>), Num(1)>>, <<Cn(<<"b">>), Str("x")>>>>) }
Admitted(t) == {k \in Consts : Member(t, k)}
Cases1 ==
  {[t1 |-> t1, t1b |-> <<>>, t2 |-> t2, t2b |-> <<>>, tpl |-> tp, facts |-> SetToSeq(fs), dstfact |-> df] :
     t1 \in SrcTypes, t2 \in DstTypes, tp \in Templates,
     fs \in {{}} \cup {{k} : k \in Consts},
     df \in {<<>>} }
\* several bound rows (alternatives) per predicate, and bodies in which a later premise refines the type a
\* variable got from an earlier one (a wide predicate first, the multi-row predicate second, or the reverse)
RowTypes == { T("/number"), T("/string"), T("/name"), <<"pre", <<"foo">>>>, <<"pre", <<"bar">>>>, <<"pre", <<"foobar">>>>,
              <<"tpair", T("/number"), T("/string")>>, <<"tlist", T("/number")>> }
RowTemplates == {"copy", "any_then_src", "name_then_src", "src_then_any", "src_then_name", "join_other", "two_srcs", "neg_nums", "ne_nums", "ne_const_name"}
Cases2All ==
  {[t1 |-> t1, t1b |-> t1b, t2 |-> t2, t2b |-> t2b, tpl |-> tp, facts |-> SetToSeq(fs), dstfact |-> <<>>] :
     t1 \in RowTypes, t1b \in RowTypes, t2 \in RowTypes \cup {T("/any")}, t2b \in {<<>>} \cup {<<"pre", <<"bar">>>>, T("/string")},
     tp \in RowTemplates,
     fs \in {{k} : k \in Consts} \cup {{Cn(<<"foo", "a">>), Cn(<<"bar", "b">>)}, {Num(1), Str("a")}} }
Cases2 == {x \in Cases2All : x.t1 # x.t1b}
\* undeclared predicates in a recursion cycle (their types are inferred while the cycle is being visited): the first
\* one has a unit clause (constant unit) and gets a wider type from src through a later clause; a declared consumer
\* joins both.  The inference visits predicates in lexical order, so each shape comes with both name orders.
RecTemplates == {"mutual_ab", "mutual_ba", "mutual_ab_zdst", "mutual_ba_zdst", "selfrec", "chain3"}
Cases3 ==
  {[t1 |-> t1, t1b |-> <<>>, t2 |-> t2, t2b |-> <<>>, tpl |-> tp, facts |-> SetToSeq(fs), dstfact |-> <<>>, unit |-> u] :
     t1 \in RowTypes \cup {T("/any")}, t2 \in RowTypes, tp \in RecTemplates,
     fs \in {{k} : k \in {Num(1), Str("a"), Cn(<<"foo", "a">>), Cn(<<"bar", "b">>), Pair(Num(1), Str("a")), List(<<Num(1), Num(0)>>)}},
     u \in {Num(1), Str("a"), Cn(<<"foo", "a">>), Cn(<<"bar", "b">>), Pair(Num(1), Str("a"))} }
\* name-prefix refinement: a positive or negated :match_prefix narrows a variable whose type is a prefix type or a
\* union of prefix types; the prefix tested is equal to, strictly below, or disjoint from an alternative
PrefTypes == { <<"union", <<<<"pre", <<"foo">>>>, <<"pre", <<"bar">>>>>>>>, <<"pre", <<"foo">>>>, T("/name"), T("/any"),
               <<"union", <<<<"pre", <<"foo", "a">>>>, <<"pre", <<"bar">>>>>>>> }
PrefDst == { <<"pre", <<"bar">>>>, <<"pre", <<"foo">>>>, <<"pre", <<"foo", "a">>>>, <<"union", <<<<"pre", <<"foo">>>>, <<"pre", <<"bar">>>>>>>>, T("/name"), <<"pre", <<"foobar">>>> }
PrefConsts == { Cn(<<"foo", "a">>), Cn(<<"foo", "a", "b">>), Cn(<<"foo", "c">>), Cn(<<"bar", "b">>), Cn(<<"foobar", "x">>) }
Cases4 ==
  {[t1 |-> t1, t1b |-> <<>>, t2 |-> t2, t2b |-> <<>>, tpl |-> tp, facts |-> SetToSeq(fs), dstfact |-> <<>>] :
     t1 \in PrefTypes, t2 \in PrefDst, tp \in {"copy", "neg_prefix_below", "neg_prefix_eq", "pos_prefix_below", "pos_prefix_eq", "neg_prefix_other"},
     fs \in {{k} : k \in PrefConsts} \cup {{k1, k2} : k1 \in PrefConsts, k2 \in PrefConsts} }
\* a base fact stated for the rule-defined predicate dst itself (before the rule), admitted by its bound or not
Cases5 ==
  {[t1 |-> t1, t1b |-> <<>>, t2 |-> t2, t2b |-> <<>>, tpl |-> tp, facts |-> SetToSeq(fs), dstfact |-> df] :
     t1 \in SrcTypes, t2 \in DstTypes, tp \in {"copy", "join_other"},
     fs \in {{}, {Num(1)}, {Str("a")}},
     df \in Consts }
Cases == IF Family = "dstfact" THEN Cases5 ELSE IF Family = "rows" THEN Cases2 ELSE IF Family = "recur" THEN Cases3 ELSE IF Family = "prefix" THEN Cases4 ELSE Cases1
Init == c = <<>>
Pick == c = <<>> /\ c' \in (IF Randomized THEN {RandomElement(Cases)} ELSE Cases)
Next == Pick
Emit == c # <<>> => PrintT(<<"CASE", ToJson(c)>>)
=============================================================================
