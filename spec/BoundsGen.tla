------------------------------- MODULE BoundsGen ------------------------------
(* Direction A for C11: programs with declared bounds.  A case picks the bound of an extensional predicate src,
   the bound of an intensional predicate dst, a rule template that copies, projects, constructs, destructures,
   joins or computes, base facts for src admitted by its bound (+ optionally one that is not admitted) and an
   optional base fact written for dst directly.                                                               *)
EXTENDS Types, Json, SequencesExt
CONSTANTS Randomized
VARIABLE c
Cn(parts) == <<"cn", parts>>
T(x) == <<"ty", x>>
SrcTypes == { T("/number"), T("/string"), T("/name"), T("/any"), <<"pre", <<"foo">>>>, <<"pre", <<"foobar">>>>,
              <<"union", <<T("/number"), T("/string")>>>>, <<"tpair", T("/number"), T("/string")>>, <<"tpair", <<"pre", <<"foo">>>>, T("/number")>>,
              <<"tlist", T("/number")>>, <<"tlist", <<"pre", <<"foo">>>>>>, <<"tmap", T("/string"), T("/number")>>,
              <<"tstruct", <<<<"a", T("/number"), FALSE>>>>>>, <<"tstruct", <<<<"a", T("/number"), FALSE>>, <<"b", T("/string"), FALSE>>>>>> }
DstTypes == SrcTypes \cup { <<"pre", <<"foo", "a">>>>, <<"tpair", T("/any"), T("/any")>>, <<"tlist", T("/any")>>, <<"tmap", T("/any"), T("/number")>>,
                            <<"union", <<<<"pre", <<"foo">>>>, T("/number")>>>> }
Templates == {"copy", "pair_with_string", "fst", "snd", "plus1", "join_other", "list_of", "member", "cons_self", "name_to_string", "struct_get_a", "map_of", "none"}
Consts == { Num(0), Num(1), Str("a"), Str("x"), Cn(<<"foo", "a">>), Cn(<<"foo", "a", "b">>), Cn(<<"foobar", "x">>), Cn(<<"bar">>),
            Pair(Num(1), Str("a")), Pair(Cn(<<"foo", "a">>), Num(1)), Pair(Str("a"), Num(1)),
            List(<<>>), List(<<Num(1), Num(0)>>), List(<<Cn(<<"foo", "a">>)>>), List(<<Str("a")>>),
            MapV(<<<<Str("k"), Num(1)>>>>), MapV(<<<<Num(1), Num(1)>>>>),
            StructV(<<<<Cn(<<"a">>), Num(1)>>>>), StructV(<<<<Cn(<<"a">>), Num(1)>>, <<Cn(<<"b">>), Str("x")>>>>) }
Admitted(t) == {k \in Consts : Member(t, k)}
Cases ==
  {[t1 |-> t1, t2 |-> t2, tpl |-> tp, facts |-> SetToSeq(fs), dstfact |-> df] :
     t1 \in SrcTypes, t2 \in DstTypes, tp \in Templates,
     fs \in {{}} \cup {{k} : k \in Consts},
     df \in {<<>>} }
Init == c = <<>>
Pick == c = <<>> /\ c' \in (IF Randomized THEN {RandomElement(Cases)} ELSE Cases)
Next == Pick
Emit == c # <<>> => PrintT(<<"CASE", ToJson(c)>>)
=============================================================================
