SPECIFICATION Spec
CONSTANTS
  Heads <- E2Heads
  BodyLits <- E2Lits
  MaxBody = 2
  Transforms <- NoTransforms
  MaxRules = 1
  FixedRules = {}
  EdbChoices <- E2Edbs
  ExtraRules = {}
  Randomized = FALSE
  Keep <- KeepE2Safe
INVARIANT Emit
CHECK_DEADLOCK FALSE
