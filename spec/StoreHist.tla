------------------------------ MODULE StoreHist -------------------------------
(***************************************************************************)
(* Direction A for C06: the FactStore specification as a state machine     *)
(* whose behaviours are operation histories.  BFS prints every history up  *)
(* to MaxLen; `-simulate` prints random long ones.  The harness replays    *)
(* each history into every store implementation.                           *)
(***************************************************************************)
EXTENDS FactStore, Json, SequencesExt
CONSTANTS Atoms, Patterns, MergeSources, MaxLen, Randomized
VARIABLES S, h
vars == <<S, h>>
Ops == {[ev |-> "add", a |-> a] : a \in Atoms} \cup {[ev |-> "rm", a |-> a] : a \in Atoms}
       \cup {[ev |-> "has", a |-> a] : a \in Atoms} \cup {[ev |-> "query", pat |-> p] : p \in Patterns}
       \cup {[ev |-> "merge", from |-> SetToSeq(m)] : m \in MergeSources}
       \cup {[ev |-> "preds"], [ev |-> "count"]}
Apply(s, op) == CASE op.ev = "add" -> s \cup {op.a} [] op.ev = "rm" -> s \ {op.a}
                  [] op.ev = "merge" -> s \cup Ran(op.from) [] OTHER -> s
Init == S = {} /\ h = <<>>
Do == /\ Len(h) < MaxLen
      /\ \E op \in (IF Randomized THEN {RandomElement({o \in Ops : Len(h) >= 0})} ELSE Ops) :
           h' = Append(h, op) /\ S' = Apply(S, op)
Next == Do
Spec == Init /\ [][Next]_vars
\* the set semantics itself: the abstract state is exactly what was added/merged and not removed
Emit == (Len(h) > 0 /\ (~Randomized \/ Len(h) = MaxLen)) => PrintT(<<"CASE", ToJson([ops |-> h])>>)
=============================================================================
