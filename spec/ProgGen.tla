------------------------------ MODULE ProgGen -------------------------------
(***************************************************************************)
(* Layer 1 - a grammar state machine that builds Mangle programs.          *)
(* The same module yields (i) an exhaustive breadth-first enumeration of   *)
(* all programs within tight constants and (ii) random programs under      *)
(* `tlc -simulate` with loose constants.  A finished program is printed as *)
(* one JSON line (the case format of package mgjson) and is then executed  *)
(* by the real engine (vh eval); Trace_Model judges the outcome.           *)
(***************************************************************************)
EXTENDS Semantics, Json

CONSTANTS
  Heads,       \* set of head atoms
  BodyLits,    \* set of body literals
  MaxBody,     \* maximal number of body literals
  Transforms,  \* set of transforms a rule may carry (contains <<"none">>)
  MaxRules,
  FixedRules,  \* rules every program contains (may be {})
  EdbChoices,  \* set of base-fact sets
  ExtraRules,  \* complete rules that may be added besides the Heads x Bodies x Transforms product
  Randomized,  \* TRUE: rules are drawn component-wise at random (for tlc -simulate over large vocabularies)
  Keep(_)      \* filter on candidate rules (e.g. no arithmetic inside recursion)

VARIABLES rules, edb, phase
vars == <<rules, edb, phase>>

Bodies == UNION {[1..k -> BodyLits] : k \in 1..MaxBody}
RuleCands == {[h |-> hd, b |-> bd, t |-> tr] : hd \in Heads, bd \in Bodies, tr \in Transforms}

Init == rules = FixedRules /\ edb = {} /\ phase = "rules"

AddRule == /\ phase = "rules" /\ ~Randomized
           /\ Cardinality(rules) < MaxRules + Cardinality(FixedRules)
           /\ \E r \in (RuleCands \cup ExtraRules) \ rules : Keep(r) /\ rules' = rules \cup {r}
           /\ UNCHANGED <<edb, phase>>

\* Random rules are parameterised by the state so that TLC does not cache them as constants.
\* Most are built constructively: every next literal is ready under the variables bound so far,
\* and the head/transform only use available variables; about one in ten is unconstrained.
\* Every random draw is bound through a singleton-set quantifier: TLC re-evaluates LET
\* definitions at each use inside actions, which would redraw.
RECURSIVE GrowBody(_, _, _)
GrowBody(b, k, bound) ==
  IF k = 0 THEN b
  ELSE CHOOSE res \in {GrowBody(Append(b, l), k - 1, bound \cup LitVars(l))
                         : l \in {RandomElement({x \in BodyLits : Ready(x, bound \cup {"#" : i \in 1..(0 * k)})})}} : TRUE

Probe(b, t) == [h |-> [p |-> "x", a |-> <<>>], b |-> b, t |-> t]
PickBody(free, n) ==
  CHOOSE b \in {IF free THEN [i \in 1..k |-> RandomElement(BodyLits)] ELSE GrowBody(<<>>, k, {})
                 : k \in {RandomElement(1..(MaxBody + 0 * n))}} : TRUE
PickTransform(b, free) ==
  LET ts == {t \in Transforms : (t[1] = "let" => LetOK(Probe(b, t))) /\ (t[1] = "do" => DoOK(Probe(b, t)))} IN
  IF free \/ ts = {} THEN RandomElement({t \in Transforms : Len(b) >= 0}) ELSE RandomElement(ts)
PickHead(b, t, free) ==
  LET hs == {h \in Heads : AtomVars(h) \subseteq HeadAvail(Probe(b, t))} IN
  IF free \/ hs = {} THEN RandomElement({h \in Heads : Len(b) >= 0}) ELSE RandomElement(hs)

RandomRule(n) ==
  CHOOSE r \in UNION { UNION { UNION { {[h |-> h, b |-> b, t |-> t] : h \in {PickHead(b, t, free)}}
                                         : t \in {PickTransform(b, free)} }
                                 : b \in {PickBody(free, n)} }
                         : free \in {RandomElement(1..(10 + 0 * n)) = 1} } : TRUE

AddRandomRule ==
  /\ phase = "rules" /\ Randomized
  /\ Cardinality(rules) < MaxRules + Cardinality(FixedRules)
  /\ \E r \in {IF ExtraRules # {} /\ (Heads = {} \/ RandomElement(1..(3 + 0 * Cardinality(rules))) = 1)
               THEN RandomElement({x \in ExtraRules : Cardinality(rules) >= 0})
               ELSE RandomRule(Cardinality(rules))} : IF Keep(r) THEN rules' = rules \cup {r} ELSE UNCHANGED rules
  /\ UNCHANGED <<edb, phase>>

ChooseEdb == /\ phase = "rules"
             /\ rules # {}
             /\ IF Randomized THEN edb' = RandomElement({e \in EdbChoices : Cardinality(rules) >= 0}) ELSE \E e \in EdbChoices : edb' = e
             /\ phase' = "done"
             /\ UNCHANGED rules

Next == AddRule \/ AddRandomRule \/ ChooseEdb
Spec == Init /\ [][Next]_vars

\* In randomized mode safe rules are emitted with their body in a ready order, so that most of
\* them get past the analyzer's left-to-right checks; exhaustive scopes emit the body as written.
Ordered(r) ==
  IF Randomized /\ Safe(r)
  THEN [r EXCEPT !.b = LET o == Schedule(r.b, DOMAIN r.b, {}) IN [i \in DOMAIN o |-> r.b[o[i]]]]
  ELSE r
Case == [rules |-> SetToSeq({Ordered(r) : r \in rules}), edb |-> SetToSeq(edb)]
Emit == phase = "done" => PrintT(<<"CASE", ToJson(Case)>>)
=============================================================================
