------------------------------ MODULE ProgGen -------------------------------
(***************************************************************************)
(* Layer 1 - a grammar state machine that builds Mangle programs.          *)
(* The same module yields (i) an exhaustive breadth-first enumeration of   *)
(* all programs within tight constants and (ii) random programs under      *)
(* `tlc -simulate` with loose constants.  A finished program is printed as *)
(* one JSON line (the case format of package mgjson) and is then executed  *)
(* by the real engine (vh eval); Trace_Model judges the outcome.           *)
(***************************************************************************)
EXTENDS Semantics, Json

CONSTANTS
  Heads,       \* set of head atoms
  BodyLits,    \* set of body literals
  MaxBody,     \* maximal number of body literals
  Transforms,  \* set of transforms a rule may carry (contains <<"none">>)
  MaxRules,
  FixedRules,  \* rules every program contains (may be {})
  EdbChoices   \* set of base-fact sets

VARIABLES rules, edb, phase
vars == <<rules, edb, phase>>

Bodies == UNION {[1..k -> BodyLits] : k \in 1..MaxBody}
RuleCands == {[h |-> hd, b |-> bd, t |-> tr] : hd \in Heads, bd \in Bodies, tr \in Transforms}

Init == rules = FixedRules /\ edb = {} /\ phase = "rules"

AddRule == /\ phase = "rules"
           /\ Cardinality(rules) < MaxRules + Cardinality(FixedRules)
           /\ \E r \in RuleCands \ rules : rules' = rules \cup {r}
           /\ UNCHANGED <<edb, phase>>

ChooseEdb == /\ phase = "rules"
             /\ rules # {}
             /\ \E e \in EdbChoices : edb' = e
             /\ phase' = "done"
             /\ UNCHANGED rules

Next == AddRule \/ ChooseEdb
Spec == Init /\ [][Next]_vars

Case == [rules |-> SetToSeq(rules), edb |-> SetToSeq(edb)]
Emit == phase = "done" => PrintT(<<"CASE", ToJson(Case)>>)
=============================================================================
