------------------------------ MODULE TemporalSem -----------------------------
(***************************************************************************)
(* Layer 2 - meaning of temporal operators, annotations and head           *)
(* annotations (readthedocs/temporal.md), property C14.                    *)
(* Time is a line of which the integers are the instants that programs     *)
(* name (one unit = one second in the harness; the store's granularity is  *)
(* a nanosecond, so two stored intervals of one atom that are a unit apart *)
(* are NOT adjacent and a coalesced store keeps them separate).            *)
(*                                                                         *)
(* A temporal database T is a set of <<atom, <<lo, hi>>>> (closed, NEG/POS *)
(* unbounded).  A temporal rule has one body literal, optionally a second  *)
(* one (field lit2 = [op, w, atom, ann]) that is solved under the          *)
(* substitutions of the first - annotation variables that already have a   *)
(* value must then EQUAL the stored bound (unification):                   *)
(*   [h, ht, op, w, atom, ann (, lit2) (, let)]                            *)
(* and optionally a let-transform (field let = <<variable, term>>) whose   *)
(* variable may occur in the head; the head annotation applies as usual.   *)
(*   op  in {"none","dm","bm","dp","bp"}  (diamond/box, minus/plus)        *)
(*   w   = <<a, b>> window in units, a <= b                                *)
(*   ann = <<"none">> | <<"vars", S, E>> | <<"var1", T>>                   *)
(*   ht  = <<"none">> | <<"now">> | <<"vars", S, E>> | <<"const", lo, hi>> *)
(***************************************************************************)
EXTENDS TemporalStore, Semantics

Window(op, w, now) == IF op \in {"dm", "bm"} THEN <<now - w[2], now - w[1]>> ELSE <<now + w[1], now + w[2]>>
\* a stored interval intersects / covers the window (closed intervals; store coalesced)
Intersects(iv, win) == iv[1] <= win[2] /\ win[1] <= iv[2]
Covers(iv, win) == iv[1] <= win[1] /\ win[2] <= iv[2]

\* binding an annotation variable: a fresh variable is bound, a bound one must agree (0 or 1 substitution)
Bind(S, v, val) == {Ext(s, v, val) : s \in {t \in S : v \notin DOMAIN t \/ t[v] = val}}
\* substitutions produced by one temporal literal over T, extending s0
LitSols(r, T, now, s0) ==
  LET cands == {x \in T : x[1].p = r.atom.p /\ Len(x[1].a) = Len(r.atom.a)} IN
  UNION { LET iv == x[2]
              base == MatchFrom(r.atom.a, x[1].a, s0, 1)
              okOp == CASE r.op = "none" -> TRUE
                        [] r.op \in {"dm", "dp"} -> Intersects(iv, Window(r.op, r.w, now))
                        [] r.op \in {"bm", "bp"} -> Covers(iv, Window(r.op, r.w, now))
              okAnn == r.ann[1] # "var1" \/ iv[1] = iv[2]      \* @[T] names a point interval
          IN IF okOp /\ okAnn
             THEN CASE r.ann[1] = "vars" -> Bind(Bind(base, r.ann[2], Tm(iv[1])), r.ann[3], Tm(iv[2]))
                    [] r.ann[1] = "var1" -> Bind(base, r.ann[2], Tm(iv[1]))
                    [] OTHER -> base
             ELSE {}
        : x \in cands }
HasLit2(r) == "lit2" \in DOMAIN r
TLitSols(r, T, now) ==
  IF HasLit2(r) THEN UNION {LitSols(r.lit2, T, now, s) : s \in LitSols(r, T, now, NoSub)}
  ELSE LitSols(r, T, now, NoSub)

HeadInterval(r, s, now) ==
  CASE r.ht[1] = "now"   -> <<now, now>>
    [] r.ht[1] = "vars"  -> <<s[r.ht[2]][2], s[r.ht[3]][2]>>
    [] r.ht[1] = "const" -> <<r.ht[2], r.ht[3]>>

HasLet(r) == "let" \in DOMAIN r
WithLet(r, s) == IF HasLet(r) THEN Ext(s, r.let[1], EvalTerm(r.let[2], s)) ELSE s
\* one application of all rules: <<regular facts, temporal facts>>
TStep(rules, T, now) ==
  LET out == UNION {{<<r, WithLet(r, s)>> : s \in TLitSols(r, T, now)} : r \in rules} IN
  << {Inst(x[1].h, x[2]) : x \in {y \in out : y[1].ht[1] = "none"}},
     {<<Inst(x[1].h, x[2]), HeadInterval(x[1], x[2], now)>> : x \in {y \in out : y[1].ht[1] # "none"}} >>

RECURSIVE TModel(_, _, _, _, _)
\* iterate to the fixpoint (temporal heads feed later rules); n bounds the iteration
TModel(rules, T, R, now, n) ==
  LET st == TStep(rules, T, now)
      T2 == T \cup st[2]
      R2 == R \cup st[1] IN
  IF (T2 = T /\ R2 = R) \/ n = 0 THEN <<R2, T2>> ELSE TModel(rules, T2, R2, now, n - 1)

\* ---------------------------------------------------------------- T14: identities of the operators
\* on a coalesced database: box implies diamond for a non-empty window; widening a window keeps diamond
\* solutions and shrinks box solutions; past and future operators mirror each other around `now`.
=============================================================================
