--------------------------- MODULE Trace_SemiNaive ---------------------------
(***************************************************************************)
(* Direction B for the engine state machine (C01, C02): a step trace       *)
(* recorded from engine.EvalProgram through the verif build-tag hook       *)
(* (engine/verif_hook_on.go, one event at the end of each critical section *)
(* of evalStrata/eval) is accepted iff it is a behaviour of SemiNaive.tla  *)
(* with the constants of the intended design (eager merge, fresh tmp       *)
(* names, do-feedback).  Every event carries the visible part of the store *)
(* and of the delta and the number of hidden (rewriter-made) facts; each   *)
(* is compared with the state the specification action produces, so a      *)
(* wrong intermediate state is rejected even when the final store happens  *)
(* to be right.                                                            *)
(*   {"base":1,id,rules,edb}   resets the machine for a new program        *)
(*   LoadFacts BeginStratum FirstRound Merge0 DeltaRound DoPhase  events   *)
(*   Return{outcome,store}     the public call returned                    *)
(* Grain mismatches, resolved explicitly:                                  *)
(*   - the code merges the delta once more when it re-enters the           *)
(*     incremental loop after the do-phase: a Merge0 event in phase        *)
(*     "delta" is a stuttering step (state logged, no action);             *)
(*   - a stratum none of whose predicates has a rule (facts only) has no   *)
(*     counterpart in the specification: its events must be empty rounds.  *)
(* Programs outside the specification's domain (unsafe, unstratifiable,    *)
(* run-time kind errors) are skipped here; Trace_Model judges them.        *)
(* On a rejected event the verdict is printed and the rest of that run is  *)
(* skipped; later runs are still checked.                                  *)
(***************************************************************************)
EXTENDS SemiNaive, Json, IOUtils

Trace == ndJsonDeserialize(IOEnv.TRACE)
NoPrograms == {}
VARIABLES l, mode        \* mode: "idle" | "check" | "empty" (inside a rule-less stratum) | "skip"
tvars == <<vars, l, mode>>

SetOf(q) == {q[i] : i \in DOMAIN q}
Ev == Trace[l]
IsBase(e) == "base" \in DOMAIN e
FuelOf(e) == IF "fuel" \in DOMAIN e /\ e.fuel > 0 THEN e.fuel ELSE 1000
Checkable(e) ==
  LET rs == SetOf(e.rules) IN
  /\ \A r \in rs : Safe(r) /\ ~Ambiguous(r)
  /\ Stratifiable(rs)
  /\ ~HasErr(rs, StratifiedModelFuel(rs, SetOf(e.edb), FuelOf(e)))

Hidden(S) == Cardinality(S \ Visible(S))
\* In the aggregation family a collected list is read as a set (its order is documented as
\* unspecified), as in Trace_Model: a logged list value becomes <<"set", elements, length>>.
ListAsSet(x) == IF x[1] = "list" THEN <<"set", Ran(x[2]), Len(x[2])>> ELSE x
NormFact(f) == [p |-> f.p, a |-> [i \in DOMAIN f.a |-> ListAsSet(f.a[i])]]
Logged(q) == IF prog.family = "agg" THEN {NormFact(f) : f \in SetOf(q)} ELSE SetOf(q)
StoreIs(S, e) == Visible(S) = Logged(e.store) /\ Hidden(S) = e.hs
DeltaIs(D, e) == Visible(D) = Logged(e.delta) /\ Hidden(D) = e.hd

ResetVars ==
  /\ store' = {} /\ delta' = {} /\ todo' = {}
  /\ cur' = [preds |-> {}, plain |-> {}, dos |-> {}, orig |-> {}]
  /\ phase' = "load" /\ round' = 0 /\ created' = 0 /\ outcome' = "running" /\ doDone' = FALSE /\ pass' = 1

Reset ==
  /\ l <= Len(Trace) /\ IsBase(Ev)
  /\ l' = l + 1
  /\ prog' = [rules |-> SetOf(Ev.rules), edb |-> SetOf(Ev.edb), limit |-> 0,
              family |-> IF "family" \in DOMAIN Ev THEN Ev.family ELSE ""]
  /\ ResetVars
  /\ IF Checkable(Ev) THEN mode' = "check" /\ PrintT(<<"CLASS", Ev.id, "traced">>)
                      ELSE mode' = "skip" /\ PrintT(<<"CLASS", Ev.id, "skipped">>)

Skip ==
  /\ l <= Len(Trace) /\ ~IsBase(Ev) /\ mode = "skip"
  /\ l' = l + 1 /\ UNCHANGED <<vars, mode>>

---------------------------------------------------------------------------
\* one specification action per event, with the logged state bound to the primed variables
EvLoadFacts    == Ev.ev = "LoadFacts" /\ mode = "check" /\ LoadFacts /\ StoreIs(store', Ev) /\ mode' = "check"
EvBeginStratum == /\ Ev.ev = "BeginStratum" /\ mode \in {"check", "empty"} /\ phase = "next"
                  /\ IF SetOf(Ev.stratum) \cap HeadPreds(prog.rules) = {}
                     THEN mode' = "empty" /\ UNCHANGED vars
                     ELSE mode' = "check" /\ BeginStratum /\ cur'.preds = SetOf(Ev.stratum)
EvFirstRound   == Ev.ev = "FirstRound" /\ mode = "check" /\ FirstRound /\ DeltaIs(delta', Ev) /\ mode' = "check"
EvMerge0       == /\ Ev.ev = "Merge0" /\ mode = "check" /\ mode' = "check"
                  /\ IF phase = "merge0" THEN Merge0 /\ StoreIs(store', Ev)
                     ELSE phase = "delta" /\ doDone /\ StoreIs(store, Ev) /\ DeltaIs(delta, Ev) /\ UNCHANGED vars
EvDeltaRound   == Ev.ev = "DeltaRound" /\ mode = "check" /\ DeltaRound /\ StoreIs(store', Ev) /\ DeltaIs(delta', Ev)
                  /\ delta' \subseteq store' /\ mode' = "check"
EvDoPhase      == Ev.ev = "DoPhase" /\ mode = "check" /\ DoPhase /\ StoreIs(store', Ev)
                  /\ Visible(store' \ (store \cup delta)) = Logged(Ev.delta) /\ mode' = "check"
\* events of a stratum without rules: nothing may be derived
EvEmpty        == /\ mode = "empty" /\ Ev.ev \in {"FirstRound", "DoPhase"}
                  /\ Ev.delta = <<>> /\ Ev.hd = 0 /\ StoreIs(store, Ev)
                  /\ mode' = "empty" /\ UNCHANGED vars
EvReturn       == /\ Ev.ev = "Return" /\ mode \in {"check", "empty"} /\ mode' = "idle"
                  /\ \/ Ev.outcome = "ok" /\ Finish /\ StoreIs(store, Ev)
                        /\ Visible(store) = StratifiedModelFuel(prog.rules, prog.edb, 1000)
                     \/ Ev.outcome = "limit_err" /\ UNCHANGED vars     \* harness guard limit; judged by Trace_Model (C17)
                     \/ Ev.outcome \in {"analysis_err", "parse_err"} /\ phase = "load" /\ UNCHANGED vars
                        \* rejected before evaluation (a safe program may be rejected; Trace_Model, C04)
Matched == EvLoadFacts \/ EvBeginStratum \/ EvFirstRound \/ EvMerge0 \/ EvDeltaRound \/ EvDoPhase \/ EvEmpty \/ EvReturn

Step == /\ l <= Len(Trace) /\ ~IsBase(Ev) /\ mode \in {"check", "empty"}
        /\ l' = l + 1
        /\ Matched

\* what the specification would have produced for this event (for the report)
ExpectedHere ==
  CASE Ev.ev = "FirstRound" /\ phase = "first" -> ToJson(Visible(UNION {Derive(r, store) : r \in cur.plain}))
    [] Ev.ev = "DeltaRound" /\ phase = "delta" ->
         ToJson(Visible((UNION {UNION {DeriveDelta(r, i, store, delta) : i \in DeltaPositions(r, cur.preds)} : r \in cur.orig})
                        \ (store \cup delta)))
    [] Ev.ev = "DoPhase" /\ phase = "do" -> ToJson(Visible((UNION {Aggregate(r, store \cup delta) : r \in cur.dos}) \ (store \cup delta)))
    [] Ev.ev = "Return" -> ToJson(StratifiedModelFuel(prog.rules, prog.edb, 1000))
    [] OTHER -> "null"
CurId == Trace[CHOOSE k \in 1..l : IsBase(Trace[k]) /\ \A j \in (k + 1)..l : ~IsBase(Trace[j])].id
Reject ==
  /\ l <= Len(Trace) /\ ~IsBase(Ev) /\ mode \in {"check", "empty"}
  /\ ~ENABLED Step
  /\ PrintT(<<"MISMATCH", CurId, l, Ev.ev \o "_in_" \o phase, ExpectedHere>>)
  /\ l' = l + 1 /\ mode' = "skip" /\ UNCHANGED vars

TraceInit == /\ l = 1 /\ mode = "idle"
        /\ prog = [rules |-> {}, edb |-> {}, limit |-> 0, family |-> ""]
        /\ store = {} /\ delta = {} /\ todo = {} /\ cur = [preds |-> {}, plain |-> {}, dos |-> {}, orig |-> {}]
        /\ phase = "load" /\ round = 0 /\ created = 0 /\ outcome = "running" /\ doDone = FALSE /\ pass = 1
TraceNext == Reset \/ Skip \/ Step \/ Reject
TraceSpec == TraceInit /\ [][TraceNext]_tvars
\* the invariants of the design, evaluated in every state the real run went through
StepInv == mode = "check" => (DeltaInv /\ Sound)
Accepted == l = Len(Trace) + 1 => PrintT(<<"CONSUMED", Len(Trace)>>)
=============================================================================
