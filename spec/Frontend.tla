------------------------------- MODULE Frontend -------------------------------
(***************************************************************************)
(* Layer 3 - the front end as a pipeline (property C10): every stage       *)
(* returns a value or an error, for every input.                           *)
(*   parse (unit, clause, term, atom, predicate name)                      *)
(*     -> analysis with bounds checking -> evaluation under a fact limit   *)
(*   simple-column reader (header, eager ReadInto, lazy store queries)     *)
(* The INPUT MODEL is a token alphabet of the grammar's keywords,          *)
(* operators, identifier and literal classes; inputs are all token strings *)
(* up to a length, and edits (delete or duplicate one token or two adjacent *)
(* tokens, swap, replace, truncate)                                        *)
(* of seed programs / line corruptions of seed fact files.                 *)
(***************************************************************************)
EXTENDS Naturals, Sequences, FiniteSets, TLC, Json
CONSTANTS Tokens, MaxLen, NSeeds, MaxPos, ReplTokens, NScSeeds, Mode
VARIABLE c
Outcomes == {"value", "error", "skipped"}
\* the contract of one run: a sequence of stage outcomes, never a panic, never a non-return
StageOK(o) == o \in Outcomes
TokenStrings == UNION {[1..k -> Tokens] : k \in 1..MaxLen}
Edits == {[seed |-> s, op |-> op, pos |-> p, tok |-> t] :
            s \in 1..NSeeds, op \in {"del", "dup", "del2", "dup2", "swap", "trunc"}, p \in 1..MaxPos, t \in {""}}
         \cup {[seed |-> s, op |-> "rep", pos |-> p, tok |-> t] : s \in 1..NSeeds, p \in 1..MaxPos, t \in ReplTokens}
ScEdits == {[seed |-> s, op |-> op, pos |-> p] :
              s \in 1..NScSeeds, p \in 1..MaxPos,
              op \in {"blank", "delete", "dup", "count+1", "count-1", "count-neg", "count-huge", "arity+1", "arity-neg", "truncate", "garbage", "npreds+1", "npreds-neg"}}
Cases == CASE Mode = "tokens" -> {[kind |-> "tokens", toks |-> t] : t \in TokenStrings}
           [] Mode = "edits" -> {[kind |-> "edit"] @@ e : e \in Edits}
           [] Mode = "sc" -> {[kind |-> "sc"] @@ e : e \in ScEdits}
Init == c = <<>>
Next == c = <<>> /\ c' \in Cases
Emit == c # <<>> => PrintT(<<"CASE", ToJson(c)>>)
=============================================================================
