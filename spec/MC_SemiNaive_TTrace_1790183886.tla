---- MODULE MC_SemiNaive_TTrace_1790183886 ----
EXTENDS MC_SemiNaive, Sequences, TLCExt, Toolbox, Naturals, TLC

_expression ==
    LET MC_SemiNaive_TEExpression == INSTANCE MC_SemiNaive_TEExpression
    IN MC_SemiNaive_TEExpression!expression
----

_trace ==
    LET MC_SemiNaive_TETrace == INSTANCE MC_SemiNaive_TETrace
    IN MC_SemiNaive_TETrace!trace
----

_inv ==
    ~(
        TLCGet("level") = Len(_TETrace)
        /\
        phase = ("done")
        /\
        todo = ({})
        /\
        cur = ([dos |-> {}, plain |-> {[h |-> [p |-> "b", a |-> <<<<"v", "X">>>>], b |-> <<<<"pos", [p |-> "a", a |-> <<<<"v", "X">>>>]>>>>, t |-> <<"none">>], [h |-> [p |-> "c", a |-> <<<<"v", "X">>>>], b |-> <<<<"pos", [p |-> "a", a |-> <<<<"v", "X">>>>]>>>>, t |-> <<"none">>], [h |-> [p |-> "a", a |-> <<<<"v", "X">>>>], b |-> <<<<"pos", [p |-> "a0", a |-> <<<<"v", "X">>>>]>>>>, t |-> <<"none">>], [h |-> [p |-> "a", a |-> <<<<"v", "Y">>>>], b |-> <<<<"pos", [p |-> "b", a |-> <<<<"v", "X">>>>]>>, <<"pos", [p |-> "c", a |-> <<<<"v", "X">>>>]>>, <<"pos", [p |-> "e2", a |-> <<<<"v", "X">>, <<"v", "Y">>>>]>>>>, t |-> <<"none">>]}, orig |-> {[h |-> [p |-> "b", a |-> <<<<"v", "X">>>>], b |-> <<<<"pos", [p |-> "a", a |-> <<<<"v", "X">>>>]>>>>, t |-> <<"none">>], [h |-> [p |-> "c", a |-> <<<<"v", "X">>>>], b |-> <<<<"pos", [p |-> "a", a |-> <<<<"v", "X">>>>]>>>>, t |-> <<"none">>], [h |-> [p |-> "a", a |-> <<<<"v", "X">>>>], b |-> <<<<"pos", [p |-> "a0", a |-> <<<<"v", "X">>>>]>>>>, t |-> <<"none">>], [h |-> [p |-> "a", a |-> <<<<"v", "Y">>>>], b |-> <<<<"pos", [p |-> "b", a |-> <<<<"v", "X">>>>]>>, <<"pos", [p |-> "c", a |-> <<<<"v", "X">>>>]>>, <<"pos", [p |-> "e2", a |-> <<<<"v", "X">>, <<"v", "Y">>>>]>>>>, t |-> <<"none">>]}, preds |-> {"b", "c", "a"}])
        /\
        round = (2)
        /\
        created = (3)
        /\
        delta = ({})
        /\
        store = ({[p |-> "b", a |-> <<<<"n", 1>>>>], [p |-> "c", a |-> <<<<"n", 1>>>>], [p |-> "a", a |-> <<<<"n", 1>>>>], [p |-> "a0", a |-> <<<<"n", 1>>>>], [p |-> "e2", a |-> <<<<"n", 1>>, <<"n", 2>>>>], [p |-> "e2", a |-> <<<<"n", 2>>, <<"n", 3>>>>]})
        /\
        doDone = (TRUE)
        /\
        outcome = ("ok")
        /\
        prog = ([rules |-> {[h |-> [p |-> "b", a |-> <<<<"v", "X">>>>], b |-> <<<<"pos", [p |-> "a", a |-> <<<<"v", "X">>>>]>>>>, t |-> <<"none">>], [h |-> [p |-> "c", a |-> <<<<"v", "X">>>>], b |-> <<<<"pos", [p |-> "a", a |-> <<<<"v", "X">>>>]>>>>, t |-> <<"none">>], [h |-> [p |-> "a", a |-> <<<<"v", "X">>>>], b |-> <<<<"pos", [p |-> "a0", a |-> <<<<"v", "X">>>>]>>>>, t |-> <<"none">>], [h |-> [p |-> "a", a |-> <<<<"v", "Y">>>>], b |-> <<<<"pos", [p |-> "b", a |-> <<<<"v", "X">>>>]>>, <<"pos", [p |-> "c", a |-> <<<<"v", "X">>>>]>>, <<"pos", [p |-> "e2", a |-> <<<<"v", "X">>, <<"v", "Y">>>>]>>>>, t |-> <<"none">>]}, edb |-> {[p |-> "a0", a |-> <<<<"n", 1>>>>], [p |-> "e2", a |-> <<<<"n", 1>>, <<"n", 2>>>>], [p |-> "e2", a |-> <<<<"n", 2>>, <<"n", 3>>>>]}, limit |-> 0])
    )
----

_init ==
    /\ outcome = _TETrace[1].outcome
    /\ store = _TETrace[1].store
    /\ round = _TETrace[1].round
    /\ doDone = _TETrace[1].doDone
    /\ phase = _TETrace[1].phase
    /\ prog = _TETrace[1].prog
    /\ created = _TETrace[1].created
    /\ todo = _TETrace[1].todo
    /\ cur = _TETrace[1].cur
    /\ delta = _TETrace[1].delta
----

_next ==
    /\ \E i,j \in DOMAIN _TETrace:
        /\ \/ /\ j = i + 1
              /\ i = TLCGet("level")
        /\ outcome  = _TETrace[i].outcome
        /\ outcome' = _TETrace[j].outcome
        /\ store  = _TETrace[i].store
        /\ store' = _TETrace[j].store
        /\ round  = _TETrace[i].round
        /\ round' = _TETrace[j].round
        /\ doDone  = _TETrace[i].doDone
        /\ doDone' = _TETrace[j].doDone
        /\ phase  = _TETrace[i].phase
        /\ phase' = _TETrace[j].phase
        /\ prog  = _TETrace[i].prog
        /\ prog' = _TETrace[j].prog
        /\ created  = _TETrace[i].created
        /\ created' = _TETrace[j].created
        /\ todo  = _TETrace[i].todo
        /\ todo' = _TETrace[j].todo
        /\ cur  = _TETrace[i].cur
        /\ cur' = _TETrace[j].cur
        /\ delta  = _TETrace[i].delta
        /\ delta' = _TETrace[j].delta

\* Uncomment the ASSUME below to write the states of the error trace
\* to the given file in Json format. Note that you can pass any tuple
\* to `JsonSerialize`. For example, a sub-sequence of _TETrace.
    \* ASSUME
    \*     LET J == INSTANCE Json
    \*         IN J!JsonSerialize("MC_SemiNaive_TTrace_1790183886.json", _TETrace)

=============================================================================

 Note that you can extract this module `MC_SemiNaive_TEExpression`
  to a dedicated file to reuse `expression` (the module in the 
  dedicated `MC_SemiNaive_TEExpression.tla` file takes precedence 
  over the module `MC_SemiNaive_TEExpression` below).

---- MODULE MC_SemiNaive_TEExpression ----
EXTENDS MC_SemiNaive, Sequences, TLCExt, Toolbox, Naturals, TLC

expression == 
    [
        \* To hide variables of the `MC_SemiNaive` spec from the error trace,
        \* remove the variables below.  The trace will be written in the order
        \* of the fields of this record.
        outcome |-> outcome
        ,store |-> store
        ,round |-> round
        ,doDone |-> doDone
        ,phase |-> phase
        ,prog |-> prog
        ,created |-> created
        ,todo |-> todo
        ,cur |-> cur
        ,delta |-> delta
        
        \* Put additional constant-, state-, and action-level expressions here:
        \* ,_stateNumber |-> _TEPosition
        \* ,_outcomeUnchanged |-> outcome = outcome'
        
        \* Format the `outcome` variable as Json value.
        \* ,_outcomeJson |->
        \*     LET J == INSTANCE Json
        \*     IN J!ToJson(outcome)
        
        \* Lastly, you may build expressions over arbitrary sets of states by
        \* leveraging the _TETrace operator.  For example, this is how to
        \* count the number of times a spec variable changed up to the current
        \* state in the trace.
        \* ,_outcomeModCount |->
        \*     LET F[s \in DOMAIN _TETrace] ==
        \*         IF s = 1 THEN 0
        \*         ELSE IF _TETrace[s].outcome # _TETrace[s-1].outcome
        \*             THEN 1 + F[s-1] ELSE F[s-1]
        \*     IN F[_TEPosition - 1]
    ]

=============================================================================



Parsing and semantic processing can take forever if the trace below is long.
 In this case, it is advised to uncomment the module below to deserialize the
 trace from a generated binary file.

\*
\*---- MODULE MC_SemiNaive_TETrace ----
\*EXTENDS MC_SemiNaive, IOUtils, TLC
\*
\*trace == IODeserialize("MC_SemiNaive_TTrace_1790183886.bin", TRUE)
\*
\*=============================================================================
\*

---- MODULE MC_SemiNaive_TETrace ----
EXTENDS MC_SemiNaive, TLC

trace == 
    <<
    ([phase |-> "load",todo |-> {},cur |-> [dos |-> {}, plain |-> {}, orig |-> {}, preds |-> {}],round |-> 0,created |-> 0,delta |-> {},store |-> {},doDone |-> FALSE,outcome |-> "running",prog |-> [rules |-> {[h |-> [p |-> "b", a |-> <<<<"v", "X">>>>], b |-> <<<<"pos", [p |-> "a", a |-> <<<<"v", "X">>>>]>>>>, t |-> <<"none">>], [h |-> [p |-> "c", a |-> <<<<"v", "X">>>>], b |-> <<<<"pos", [p |-> "a", a |-> <<<<"v", "X">>>>]>>>>, t |-> <<"none">>], [h |-> [p |-> "a", a |-> <<<<"v", "X">>>>], b |-> <<<<"pos", [p |-> "a0", a |-> <<<<"v", "X">>>>]>>>>, t |-> <<"none">>], [h |-> [p |-> "a", a |-> <<<<"v", "Y">>>>], b |-> <<<<"pos", [p |-> "b", a |-> <<<<"v", "X">>>>]>>, <<"pos", [p |-> "c", a |-> <<<<"v", "X">>>>]>>, <<"pos", [p |-> "e2", a |-> <<<<"v", "X">>, <<"v", "Y">>>>]>>>>, t |-> <<"none">>]}, edb |-> {[p |-> "a0", a |-> <<<<"n", 1>>>>], [p |-> "e2", a |-> <<<<"n", 1>>, <<"n", 2>>>>], [p |-> "e2", a |-> <<<<"n", 2>>, <<"n", 3>>>>]}, limit |-> 0]]),
    ([phase |-> "next",todo |-> {{"b", "c", "a"}},cur |-> [dos |-> {}, plain |-> {}, orig |-> {}, preds |-> {}],round |-> 0,created |-> 0,delta |-> {},store |-> {[p |-> "a0", a |-> <<<<"n", 1>>>>], [p |-> "e2", a |-> <<<<"n", 1>>, <<"n", 2>>>>], [p |-> "e2", a |-> <<<<"n", 2>>, <<"n", 3>>>>]},doDone |-> FALSE,outcome |-> "running",prog |-> [rules |-> {[h |-> [p |-> "b", a |-> <<<<"v", "X">>>>], b |-> <<<<"pos", [p |-> "a", a |-> <<<<"v", "X">>>>]>>>>, t |-> <<"none">>], [h |-> [p |-> "c", a |-> <<<<"v", "X">>>>], b |-> <<<<"pos", [p |-> "a", a |-> <<<<"v", "X">>>>]>>>>, t |-> <<"none">>], [h |-> [p |-> "a", a |-> <<<<"v", "X">>>>], b |-> <<<<"pos", [p |-> "a0", a |-> <<<<"v", "X">>>>]>>>>, t |-> <<"none">>], [h |-> [p |-> "a", a |-> <<<<"v", "Y">>>>], b |-> <<<<"pos", [p |-> "b", a |-> <<<<"v", "X">>>>]>>, <<"pos", [p |-> "c", a |-> <<<<"v", "X">>>>]>>, <<"pos", [p |-> "e2", a |-> <<<<"v", "X">>, <<"v", "Y">>>>]>>>>, t |-> <<"none">>]}, edb |-> {[p |-> "a0", a |-> <<<<"n", 1>>>>], [p |-> "e2", a |-> <<<<"n", 1>>, <<"n", 2>>>>], [p |-> "e2", a |-> <<<<"n", 2>>, <<"n", 3>>>>]}, limit |-> 0]]),
    ([phase |-> "first",todo |-> {},cur |-> [dos |-> {}, plain |-> {[h |-> [p |-> "b", a |-> <<<<"v", "X">>>>], b |-> <<<<"pos", [p |-> "a", a |-> <<<<"v", "X">>>>]>>>>, t |-> <<"none">>], [h |-> [p |-> "c", a |-> <<<<"v", "X">>>>], b |-> <<<<"pos", [p |-> "a", a |-> <<<<"v", "X">>>>]>>>>, t |-> <<"none">>], [h |-> [p |-> "a", a |-> <<<<"v", "X">>>>], b |-> <<<<"pos", [p |-> "a0", a |-> <<<<"v", "X">>>>]>>>>, t |-> <<"none">>], [h |-> [p |-> "a", a |-> <<<<"v", "Y">>>>], b |-> <<<<"pos", [p |-> "b", a |-> <<<<"v", "X">>>>]>>, <<"pos", [p |-> "c", a |-> <<<<"v", "X">>>>]>>, <<"pos", [p |-> "e2", a |-> <<<<"v", "X">>, <<"v", "Y">>>>]>>>>, t |-> <<"none">>]}, orig |-> {[h |-> [p |-> "b", a |-> <<<<"v", "X">>>>], b |-> <<<<"pos", [p |-> "a", a |-> <<<<"v", "X">>>>]>>>>, t |-> <<"none">>], [h |-> [p |-> "c", a |-> <<<<"v", "X">>>>], b |-> <<<<"pos", [p |-> "a", a |-> <<<<"v", "X">>>>]>>>>, t |-> <<"none">>], [h |-> [p |-> "a", a |-> <<<<"v", "X">>>>], b |-> <<<<"pos", [p |-> "a0", a |-> <<<<"v", "X">>>>]>>>>, t |-> <<"none">>], [h |-> [p |-> "a", a |-> <<<<"v", "Y">>>>], b |-> <<<<"pos", [p |-> "b", a |-> <<<<"v", "X">>>>]>>, <<"pos", [p |-> "c", a |-> <<<<"v", "X">>>>]>>, <<"pos", [p |-> "e2", a |-> <<<<"v", "X">>, <<"v", "Y">>>>]>>>>, t |-> <<"none">>]}, preds |-> {"b", "c", "a"}],round |-> 0,created |-> 0,delta |-> {},store |-> {[p |-> "a0", a |-> <<<<"n", 1>>>>], [p |-> "e2", a |-> <<<<"n", 1>>, <<"n", 2>>>>], [p |-> "e2", a |-> <<<<"n", 2>>, <<"n", 3>>>>]},doDone |-> FALSE,outcome |-> "running",prog |-> [rules |-> {[h |-> [p |-> "b", a |-> <<<<"v", "X">>>>], b |-> <<<<"pos", [p |-> "a", a |-> <<<<"v", "X">>>>]>>>>, t |-> <<"none">>], [h |-> [p |-> "c", a |-> <<<<"v", "X">>>>], b |-> <<<<"pos", [p |-> "a", a |-> <<<<"v", "X">>>>]>>>>, t |-> <<"none">>], [h |-> [p |-> "a", a |-> <<<<"v", "X">>>>], b |-> <<<<"pos", [p |-> "a0", a |-> <<<<"v", "X">>>>]>>>>, t |-> <<"none">>], [h |-> [p |-> "a", a |-> <<<<"v", "Y">>>>], b |-> <<<<"pos", [p |-> "b", a |-> <<<<"v", "X">>>>]>>, <<"pos", [p |-> "c", a |-> <<<<"v", "X">>>>]>>, <<"pos", [p |-> "e2", a |-> <<<<"v", "X">>, <<"v", "Y">>>>]>>>>, t |-> <<"none">>]}, edb |-> {[p |-> "a0", a |-> <<<<"n", 1>>>>], [p |-> "e2", a |-> <<<<"n", 1>>, <<"n", 2>>>>], [p |-> "e2", a |-> <<<<"n", 2>>, <<"n", 3>>>>]}, limit |-> 0]]),
    ([phase |-> "merge0",todo |-> {},cur |-> [dos |-> {}, plain |-> {[h |-> [p |-> "b", a |-> <<<<"v", "X">>>>], b |-> <<<<"pos", [p |-> "a", a |-> <<<<"v", "X">>>>]>>>>, t |-> <<"none">>], [h |-> [p |-> "c", a |-> <<<<"v", "X">>>>], b |-> <<<<"pos", [p |-> "a", a |-> <<<<"v", "X">>>>]>>>>, t |-> <<"none">>], [h |-> [p |-> "a", a |-> <<<<"v", "X">>>>], b |-> <<<<"pos", [p |-> "a0", a |-> <<<<"v", "X">>>>]>>>>, t |-> <<"none">>], [h |-> [p |-> "a", a |-> <<<<"v", "Y">>>>], b |-> <<<<"pos", [p |-> "b", a |-> <<<<"v", "X">>>>]>>, <<"pos", [p |-> "c", a |-> <<<<"v", "X">>>>]>>, <<"pos", [p |-> "e2", a |-> <<<<"v", "X">>, <<"v", "Y">>>>]>>>>, t |-> <<"none">>]}, orig |-> {[h |-> [p |-> "b", a |-> <<<<"v", "X">>>>], b |-> <<<<"pos", [p |-> "a", a |-> <<<<"v", "X">>>>]>>>>, t |-> <<"none">>], [h |-> [p |-> "c", a |-> <<<<"v", "X">>>>], b |-> <<<<"pos", [p |-> "a", a |-> <<<<"v", "X">>>>]>>>>, t |-> <<"none">>], [h |-> [p |-> "a", a |-> <<<<"v", "X">>>>], b |-> <<<<"pos", [p |-> "a0", a |-> <<<<"v", "X">>>>]>>>>, t |-> <<"none">>], [h |-> [p |-> "a", a |-> <<<<"v", "Y">>>>], b |-> <<<<"pos", [p |-> "b", a |-> <<<<"v", "X">>>>]>>, <<"pos", [p |-> "c", a |-> <<<<"v", "X">>>>]>>, <<"pos", [p |-> "e2", a |-> <<<<"v", "X">>, <<"v", "Y">>>>]>>>>, t |-> <<"none">>]}, preds |-> {"b", "c", "a"}],round |-> 0,created |-> 0,delta |-> {[p |-> "a", a |-> <<<<"n", 1>>>>]},store |-> {[p |-> "a0", a |-> <<<<"n", 1>>>>], [p |-> "e2", a |-> <<<<"n", 1>>, <<"n", 2>>>>], [p |-> "e2", a |-> <<<<"n", 2>>, <<"n", 3>>>>]},doDone |-> FALSE,outcome |-> "running",prog |-> [rules |-> {[h |-> [p |-> "b", a |-> <<<<"v", "X">>>>], b |-> <<<<"pos", [p |-> "a", a |-> <<<<"v", "X">>>>]>>>>, t |-> <<"none">>], [h |-> [p |-> "c", a |-> <<<<"v", "X">>>>], b |-> <<<<"pos", [p |-> "a", a |-> <<<<"v", "X">>>>]>>>>, t |-> <<"none">>], [h |-> [p |-> "a", a |-> <<<<"v", "X">>>>], b |-> <<<<"pos", [p |-> "a0", a |-> <<<<"v", "X">>>>]>>>>, t |-> <<"none">>], [h |-> [p |-> "a", a |-> <<<<"v", "Y">>>>], b |-> <<<<"pos", [p |-> "b", a |-> <<<<"v", "X">>>>]>>, <<"pos", [p |-> "c", a |-> <<<<"v", "X">>>>]>>, <<"pos", [p |-> "e2", a |-> <<<<"v", "X">>, <<"v", "Y">>>>]>>>>, t |-> <<"none">>]}, edb |-> {[p |-> "a0", a |-> <<<<"n", 1>>>>], [p |-> "e2", a |-> <<<<"n", 1>>, <<"n", 2>>>>], [p |-> "e2", a |-> <<<<"n", 2>>, <<"n", 3>>>>]}, limit |-> 0]]),
    ([phase |-> "delta",todo |-> {},cur |-> [dos |-> {}, plain |-> {[h |-> [p |-> "b", a |-> <<<<"v", "X">>>>], b |-> <<<<"pos", [p |-> "a", a |-> <<<<"v", "X">>>>]>>>>, t |-> <<"none">>], [h |-> [p |-> "c", a |-> <<<<"v", "X">>>>], b |-> <<<<"pos", [p |-> "a", a |-> <<<<"v", "X">>>>]>>>>, t |-> <<"none">>], [h |-> [p |-> "a", a |-> <<<<"v", "X">>>>], b |-> <<<<"pos", [p |-> "a0", a |-> <<<<"v", "X">>>>]>>>>, t |-> <<"none">>], [h |-> [p |-> "a", a |-> <<<<"v", "Y">>>>], b |-> <<<<"pos", [p |-> "b", a |-> <<<<"v", "X">>>>]>>, <<"pos", [p |-> "c", a |-> <<<<"v", "X">>>>]>>, <<"pos", [p |-> "e2", a |-> <<<<"v", "X">>, <<"v", "Y">>>>]>>>>, t |-> <<"none">>]}, orig |-> {[h |-> [p |-> "b", a |-> <<<<"v", "X">>>>], b |-> <<<<"pos", [p |-> "a", a |-> <<<<"v", "X">>>>]>>>>, t |-> <<"none">>], [h |-> [p |-> "c", a |-> <<<<"v", "X">>>>], b |-> <<<<"pos", [p |-> "a", a |-> <<<<"v", "X">>>>]>>>>, t |-> <<"none">>], [h |-> [p |-> "a", a |-> <<<<"v", "X">>>>], b |-> <<<<"pos", [p |-> "a0", a |-> <<<<"v", "X">>>>]>>>>, t |-> <<"none">>], [h |-> [p |-> "a", a |-> <<<<"v", "Y">>>>], b |-> <<<<"pos", [p |-> "b", a |-> <<<<"v", "X">>>>]>>, <<"pos", [p |-> "c", a |-> <<<<"v", "X">>>>]>>, <<"pos", [p |-> "e2", a |-> <<<<"v", "X">>, <<"v", "Y">>>>]>>>>, t |-> <<"none">>]}, preds |-> {"b", "c", "a"}],round |-> 0,created |-> 1,delta |-> {[p |-> "a", a |-> <<<<"n", 1>>>>]},store |-> {[p |-> "a", a |-> <<<<"n", 1>>>>], [p |-> "a0", a |-> <<<<"n", 1>>>>], [p |-> "e2", a |-> <<<<"n", 1>>, <<"n", 2>>>>], [p |-> "e2", a |-> <<<<"n", 2>>, <<"n", 3>>>>]},doDone |-> FALSE,outcome |-> "running",prog |-> [rules |-> {[h |-> [p |-> "b", a |-> <<<<"v", "X">>>>], b |-> <<<<"pos", [p |-> "a", a |-> <<<<"v", "X">>>>]>>>>, t |-> <<"none">>], [h |-> [p |-> "c", a |-> <<<<"v", "X">>>>], b |-> <<<<"pos", [p |-> "a", a |-> <<<<"v", "X">>>>]>>>>, t |-> <<"none">>], [h |-> [p |-> "a", a |-> <<<<"v", "X">>>>], b |-> <<<<"pos", [p |-> "a0", a |-> <<<<"v", "X">>>>]>>>>, t |-> <<"none">>], [h |-> [p |-> "a", a |-> <<<<"v", "Y">>>>], b |-> <<<<"pos", [p |-> "b", a |-> <<<<"v", "X">>>>]>>, <<"pos", [p |-> "c", a |-> <<<<"v", "X">>>>]>>, <<"pos", [p |-> "e2", a |-> <<<<"v", "X">>, <<"v", "Y">>>>]>>>>, t |-> <<"none">>]}, edb |-> {[p |-> "a0", a |-> <<<<"n", 1>>>>], [p |-> "e2", a |-> <<<<"n", 1>>, <<"n", 2>>>>], [p |-> "e2", a |-> <<<<"n", 2>>, <<"n", 3>>>>]}, limit |-> 0]]),
    ([phase |-> "delta",todo |-> {},cur |-> [dos |-> {}, plain |-> {[h |-> [p |-> "b", a |-> <<<<"v", "X">>>>], b |-> <<<<"pos", [p |-> "a", a |-> <<<<"v", "X">>>>]>>>>, t |-> <<"none">>], [h |-> [p |-> "c", a |-> <<<<"v", "X">>>>], b |-> <<<<"pos", [p |-> "a", a |-> <<<<"v", "X">>>>]>>>>, t |-> <<"none">>], [h |-> [p |-> "a", a |-> <<<<"v", "X">>>>], b |-> <<<<"pos", [p |-> "a0", a |-> <<<<"v", "X">>>>]>>>>, t |-> <<"none">>], [h |-> [p |-> "a", a |-> <<<<"v", "Y">>>>], b |-> <<<<"pos", [p |-> "b", a |-> <<<<"v", "X">>>>]>>, <<"pos", [p |-> "c", a |-> <<<<"v", "X">>>>]>>, <<"pos", [p |-> "e2", a |-> <<<<"v", "X">>, <<"v", "Y">>>>]>>>>, t |-> <<"none">>]}, orig |-> {[h |-> [p |-> "b", a |-> <<<<"v", "X">>>>], b |-> <<<<"pos", [p |-> "a", a |-> <<<<"v", "X">>>>]>>>>, t |-> <<"none">>], [h |-> [p |-> "c", a |-> <<<<"v", "X">>>>], b |-> <<<<"pos", [p |-> "a", a |-> <<<<"v", "X">>>>]>>>>, t |-> <<"none">>], [h |-> [p |-> "a", a |-> <<<<"v", "X">>>>], b |-> <<<<"pos", [p |-> "a0", a |-> <<<<"v", "X">>>>]>>>>, t |-> <<"none">>], [h |-> [p |-> "a", a |-> <<<<"v", "Y">>>>], b |-> <<<<"pos", [p |-> "b", a |-> <<<<"v", "X">>>>]>>, <<"pos", [p |-> "c", a |-> <<<<"v", "X">>>>]>>, <<"pos", [p |-> "e2", a |-> <<<<"v", "X">>, <<"v", "Y">>>>]>>>>, t |-> <<"none">>]}, preds |-> {"b", "c", "a"}],round |-> 1,created |-> 3,delta |-> {[p |-> "b", a |-> <<<<"n", 1>>>>], [p |-> "c", a |-> <<<<"n", 1>>>>]},store |-> {[p |-> "a", a |-> <<<<"n", 1>>>>], [p |-> "a0", a |-> <<<<"n", 1>>>>], [p |-> "e2", a |-> <<<<"n", 1>>, <<"n", 2>>>>], [p |-> "e2", a |-> <<<<"n", 2>>, <<"n", 3>>>>]},doDone |-> FALSE,outcome |-> "running",prog |-> [rules |-> {[h |-> [p |-> "b", a |-> <<<<"v", "X">>>>], b |-> <<<<"pos", [p |-> "a", a |-> <<<<"v", "X">>>>]>>>>, t |-> <<"none">>], [h |-> [p |-> "c", a |-> <<<<"v", "X">>>>], b |-> <<<<"pos", [p |-> "a", a |-> <<<<"v", "X">>>>]>>>>, t |-> <<"none">>], [h |-> [p |-> "a", a |-> <<<<"v", "X">>>>], b |-> <<<<"pos", [p |-> "a0", a |-> <<<<"v", "X">>>>]>>>>, t |-> <<"none">>], [h |-> [p |-> "a", a |-> <<<<"v", "Y">>>>], b |-> <<<<"pos", [p |-> "b", a |-> <<<<"v", "X">>>>]>>, <<"pos", [p |-> "c", a |-> <<<<"v", "X">>>>]>>, <<"pos", [p |-> "e2", a |-> <<<<"v", "X">>, <<"v", "Y">>>>]>>>>, t |-> <<"none">>]}, edb |-> {[p |-> "a0", a |-> <<<<"n", 1>>>>], [p |-> "e2", a |-> <<<<"n", 1>>, <<"n", 2>>>>], [p |-> "e2", a |-> <<<<"n", 2>>, <<"n", 3>>>>]}, limit |-> 0]]),
    ([phase |-> "do",todo |-> {},cur |-> [dos |-> {}, plain |-> {[h |-> [p |-> "b", a |-> <<<<"v", "X">>>>], b |-> <<<<"pos", [p |-> "a", a |-> <<<<"v", "X">>>>]>>>>, t |-> <<"none">>], [h |-> [p |-> "c", a |-> <<<<"v", "X">>>>], b |-> <<<<"pos", [p |-> "a", a |-> <<<<"v", "X">>>>]>>>>, t |-> <<"none">>], [h |-> [p |-> "a", a |-> <<<<"v", "X">>>>], b |-> <<<<"pos", [p |-> "a0", a |-> <<<<"v", "X">>>>]>>>>, t |-> <<"none">>], [h |-> [p |-> "a", a |-> <<<<"v", "Y">>>>], b |-> <<<<"pos", [p |-> "b", a |-> <<<<"v", "X">>>>]>>, <<"pos", [p |-> "c", a |-> <<<<"v", "X">>>>]>>, <<"pos", [p |-> "e2", a |-> <<<<"v", "X">>, <<"v", "Y">>>>]>>>>, t |-> <<"none">>]}, orig |-> {[h |-> [p |-> "b", a |-> <<<<"v", "X">>>>], b |-> <<<<"pos", [p |-> "a", a |-> <<<<"v", "X">>>>]>>>>, t |-> <<"none">>], [h |-> [p |-> "c", a |-> <<<<"v", "X">>>>], b |-> <<<<"pos", [p |-> "a", a |-> <<<<"v", "X">>>>]>>>>, t |-> <<"none">>], [h |-> [p |-> "a", a |-> <<<<"v", "X">>>>], b |-> <<<<"pos", [p |-> "a0", a |-> <<<<"v", "X">>>>]>>>>, t |-> <<"none">>], [h |-> [p |-> "a", a |-> <<<<"v", "Y">>>>], b |-> <<<<"pos", [p |-> "b", a |-> <<<<"v", "X">>>>]>>, <<"pos", [p |-> "c", a |-> <<<<"v", "X">>>>]>>, <<"pos", [p |-> "e2", a |-> <<<<"v", "X">>, <<"v", "Y">>>>]>>>>, t |-> <<"none">>]}, preds |-> {"b", "c", "a"}],round |-> 2,created |-> 3,delta |-> {},store |-> {[p |-> "b", a |-> <<<<"n", 1>>>>], [p |-> "c", a |-> <<<<"n", 1>>>>], [p |-> "a", a |-> <<<<"n", 1>>>>], [p |-> "a0", a |-> <<<<"n", 1>>>>], [p |-> "e2", a |-> <<<<"n", 1>>, <<"n", 2>>>>], [p |-> "e2", a |-> <<<<"n", 2>>, <<"n", 3>>>>]},doDone |-> FALSE,outcome |-> "running",prog |-> [rules |-> {[h |-> [p |-> "b", a |-> <<<<"v", "X">>>>], b |-> <<<<"pos", [p |-> "a", a |-> <<<<"v", "X">>>>]>>>>, t |-> <<"none">>], [h |-> [p |-> "c", a |-> <<<<"v", "X">>>>], b |-> <<<<"pos", [p |-> "a", a |-> <<<<"v", "X">>>>]>>>>, t |-> <<"none">>], [h |-> [p |-> "a", a |-> <<<<"v", "X">>>>], b |-> <<<<"pos", [p |-> "a0", a |-> <<<<"v", "X">>>>]>>>>, t |-> <<"none">>], [h |-> [p |-> "a", a |-> <<<<"v", "Y">>>>], b |-> <<<<"pos", [p |-> "b", a |-> <<<<"v", "X">>>>]>>, <<"pos", [p |-> "c", a |-> <<<<"v", "X">>>>]>>, <<"pos", [p |-> "e2", a |-> <<<<"v", "X">>, <<"v", "Y">>>>]>>>>, t |-> <<"none">>]}, edb |-> {[p |-> "a0", a |-> <<<<"n", 1>>>>], [p |-> "e2", a |-> <<<<"n", 1>>, <<"n", 2>>>>], [p |-> "e2", a |-> <<<<"n", 2>>, <<"n", 3>>>>]}, limit |-> 0]]),
    ([phase |-> "next",todo |-> {},cur |-> [dos |-> {}, plain |-> {[h |-> [p |-> "b", a |-> <<<<"v", "X">>>>], b |-> <<<<"pos", [p |-> "a", a |-> <<<<"v", "X">>>>]>>>>, t |-> <<"none">>], [h |-> [p |-> "c", a |-> <<<<"v", "X">>>>], b |-> <<<<"pos", [p |-> "a", a |-> <<<<"v", "X">>>>]>>>>, t |-> <<"none">>], [h |-> [p |-> "a", a |-> <<<<"v", "X">>>>], b |-> <<<<"pos", [p |-> "a0", a |-> <<<<"v", "X">>>>]>>>>, t |-> <<"none">>], [h |-> [p |-> "a", a |-> <<<<"v", "Y">>>>], b |-> <<<<"pos", [p |-> "b", a |-> <<<<"v", "X">>>>]>>, <<"pos", [p |-> "c", a |-> <<<<"v", "X">>>>]>>, <<"pos", [p |-> "e2", a |-> <<<<"v", "X">>, <<"v", "Y">>>>]>>>>, t |-> <<"none">>]}, orig |-> {[h |-> [p |-> "b", a |-> <<<<"v", "X">>>>], b |-> <<<<"pos", [p |-> "a", a |-> <<<<"v", "X">>>>]>>>>, t |-> <<"none">>], [h |-> [p |-> "c", a |-> <<<<"v", "X">>>>], b |-> <<<<"pos", [p |-> "a", a |-> <<<<"v", "X">>>>]>>>>, t |-> <<"none">>], [h |-> [p |-> "a", a |-> <<<<"v", "X">>>>], b |-> <<<<"pos", [p |-> "a0", a |-> <<<<"v", "X">>>>]>>>>, t |-> <<"none">>], [h |-> [p |-> "a", a |-> <<<<"v", "Y">>>>], b |-> <<<<"pos", [p |-> "b", a |-> <<<<"v", "X">>>>]>>, <<"pos", [p |-> "c", a |-> <<<<"v", "X">>>>]>>, <<"pos", [p |-> "e2", a |-> <<<<"v", "X">>, <<"v", "Y">>>>]>>>>, t |-> <<"none">>]}, preds |-> {"b", "c", "a"}],round |-> 2,created |-> 3,delta |-> {},store |-> {[p |-> "b", a |-> <<<<"n", 1>>>>], [p |-> "c", a |-> <<<<"n", 1>>>>], [p |-> "a", a |-> <<<<"n", 1>>>>], [p |-> "a0", a |-> <<<<"n", 1>>>>], [p |-> "e2", a |-> <<<<"n", 1>>, <<"n", 2>>>>], [p |-> "e2", a |-> <<<<"n", 2>>, <<"n", 3>>>>]},doDone |-> TRUE,outcome |-> "running",prog |-> [rules |-> {[h |-> [p |-> "b", a |-> <<<<"v", "X">>>>], b |-> <<<<"pos", [p |-> "a", a |-> <<<<"v", "X">>>>]>>>>, t |-> <<"none">>], [h |-> [p |-> "c", a |-> <<<<"v", "X">>>>], b |-> <<<<"pos", [p |-> "a", a |-> <<<<"v", "X">>>>]>>>>, t |-> <<"none">>], [h |-> [p |-> "a", a |-> <<<<"v", "X">>>>], b |-> <<<<"pos", [p |-> "a0", a |-> <<<<"v", "X">>>>]>>>>, t |-> <<"none">>], [h |-> [p |-> "a", a |-> <<<<"v", "Y">>>>], b |-> <<<<"pos", [p |-> "b", a |-> <<<<"v", "X">>>>]>>, <<"pos", [p |-> "c", a |-> <<<<"v", "X">>>>]>>, <<"pos", [p |-> "e2", a |-> <<<<"v", "X">>, <<"v", "Y">>>>]>>>>, t |-> <<"none">>]}, edb |-> {[p |-> "a0", a |-> <<<<"n", 1>>>>], [p |-> "e2", a |-> <<<<"n", 1>>, <<"n", 2>>>>], [p |-> "e2", a |-> <<<<"n", 2>>, <<"n", 3>>>>]}, limit |-> 0]]),
    ([phase |-> "done",todo |-> {},cur |-> [dos |-> {}, plain |-> {[h |-> [p |-> "b", a |-> <<<<"v", "X">>>>], b |-> <<<<"pos", [p |-> "a", a |-> <<<<"v", "X">>>>]>>>>, t |-> <<"none">>], [h |-> [p |-> "c", a |-> <<<<"v", "X">>>>], b |-> <<<<"pos", [p |-> "a", a |-> <<<<"v", "X">>>>]>>>>, t |-> <<"none">>], [h |-> [p |-> "a", a |-> <<<<"v", "X">>>>], b |-> <<<<"pos", [p |-> "a0", a |-> <<<<"v", "X">>>>]>>>>, t |-> <<"none">>], [h |-> [p |-> "a", a |-> <<<<"v", "Y">>>>], b |-> <<<<"pos", [p |-> "b", a |-> <<<<"v", "X">>>>]>>, <<"pos", [p |-> "c", a |-> <<<<"v", "X">>>>]>>, <<"pos", [p |-> "e2", a |-> <<<<"v", "X">>, <<"v", "Y">>>>]>>>>, t |-> <<"none">>]}, orig |-> {[h |-> [p |-> "b", a |-> <<<<"v", "X">>>>], b |-> <<<<"pos", [p |-> "a", a |-> <<<<"v", "X">>>>]>>>>, t |-> <<"none">>], [h |-> [p |-> "c", a |-> <<<<"v", "X">>>>], b |-> <<<<"pos", [p |-> "a", a |-> <<<<"v", "X">>>>]>>>>, t |-> <<"none">>], [h |-> [p |-> "a", a |-> <<<<"v", "X">>>>], b |-> <<<<"pos", [p |-> "a0", a |-> <<<<"v", "X">>>>]>>>>, t |-> <<"none">>], [h |-> [p |-> "a", a |-> <<<<"v", "Y">>>>], b |-> <<<<"pos", [p |-> "b", a |-> <<<<"v", "X">>>>]>>, <<"pos", [p |-> "c", a |-> <<<<"v", "X">>>>]>>, <<"pos", [p |-> "e2", a |-> <<<<"v", "X">>, <<"v", "Y">>>>]>>>>, t |-> <<"none">>]}, preds |-> {"b", "c", "a"}],round |-> 2,created |-> 3,delta |-> {},store |-> {[p |-> "b", a |-> <<<<"n", 1>>>>], [p |-> "c", a |-> <<<<"n", 1>>>>], [p |-> "a", a |-> <<<<"n", 1>>>>], [p |-> "a0", a |-> <<<<"n", 1>>>>], [p |-> "e2", a |-> <<<<"n", 1>>, <<"n", 2>>>>], [p |-> "e2", a |-> <<<<"n", 2>>, <<"n", 3>>>>]},doDone |-> TRUE,outcome |-> "ok",prog |-> [rules |-> {[h |-> [p |-> "b", a |-> <<<<"v", "X">>>>], b |-> <<<<"pos", [p |-> "a", a |-> <<<<"v", "X">>>>]>>>>, t |-> <<"none">>], [h |-> [p |-> "c", a |-> <<<<"v", "X">>>>], b |-> <<<<"pos", [p |-> "a", a |-> <<<<"v", "X">>>>]>>>>, t |-> <<"none">>], [h |-> [p |-> "a", a |-> <<<<"v", "X">>>>], b |-> <<<<"pos", [p |-> "a0", a |-> <<<<"v", "X">>>>]>>>>, t |-> <<"none">>], [h |-> [p |-> "a", a |-> <<<<"v", "Y">>>>], b |-> <<<<"pos", [p |-> "b", a |-> <<<<"v", "X">>>>]>>, <<"pos", [p |-> "c", a |-> <<<<"v", "X">>>>]>>, <<"pos", [p |-> "e2", a |-> <<<<"v", "X">>, <<"v", "Y">>>>]>>>>, t |-> <<"none">>]}, edb |-> {[p |-> "a0", a |-> <<<<"n", 1>>>>], [p |-> "e2", a |-> <<<<"n", 1>>, <<"n", 2>>>>], [p |-> "e2", a |-> <<<<"n", 2>>, <<"n", 3>>>>]}, limit |-> 0]])
    >>
----


=============================================================================

---- CONFIG MC_SemiNaive_TTrace_1790183886 ----
CONSTANTS
    MergeTiming = "lagging"
    DoFeedback = "rerun"
    TmpName = "fresh"
    Programs <- ProgramsSmall

INVARIANT
    _inv

CHECK_DEADLOCK
    \* CHECK_DEADLOCK off because of PROPERTY or INVARIANT above.
    FALSE

INIT
    _init

NEXT
    _next

CONSTANT
    _TETrace <- _trace

ALIAS
    _expression
=============================================================================
\* Generated on Wed Sep 23 17:18:08 UTC 2026