-------------------------------- MODULE ScGen ---------------------------------
(* Direction A for C19: fact stores to save and reload, as behaviours of a small builder machine. *)
EXTENDS FactStore, Json, SequencesExt
CONSTANTS Universe, MaxFacts, Randomized,
          Hot            \* a cluster of facts with equal hashes (one predicate): drawn more often than their share of the universe
VARIABLES facts, cfg, phase
vars == <<facts, cfg, phase>>
Init == facts = {} /\ cfg = <<>> /\ phase = "build"
AddFact == /\ phase = "build" /\ Cardinality(facts) < MaxFacts
           /\ \E f \in (IF Randomized THEN {RandomElement({u \in Universe : Cardinality(facts) >= 0})} ELSE Universe \ facts) :
                facts' = facts \cup {f}
           /\ UNCHANGED <<cfg, phase>>
AddHot == /\ phase = "build" /\ Randomized /\ Cardinality(facts) < MaxFacts /\ Hot \ facts # {}
          /\ \E f \in {RandomElement({u \in Hot \ facts : Cardinality(facts) >= 0})} : facts' = facts \cup {f}
          /\ UNCHANGED <<cfg, phase>>
Formats == {"plain", "gzip", "zstd"}
Empties == {<<>>, <<<<"e", 1>>>>, <<<<"z0", 0>>, <<"e2", 2>>>>, <<<<"p", 3>>, <<"q", 1>>>>}
Finish == /\ phase = "build"
          /\ \E d \in (IF Randomized THEN {RandomElement({x \in BOOLEAN : Cardinality(facts) >= 0})} ELSE {TRUE}),
                fm \in (IF Randomized THEN {RandomElement({x \in Formats : Cardinality(facts) >= 0})} ELSE {"plain"}),
                em \in (IF Randomized THEN {RandomElement({x \in Empties : Cardinality(facts) >= 0})} ELSE {<<>>, <<<<"e", 1>>>>}) :
               cfg' = [det |-> d, format |-> fm, empty |-> em]
          /\ phase' = "done" /\ UNCHANGED facts
Next == AddFact \/ AddHot \/ Finish
Spec == Init /\ [][Next]_vars
Emit == phase = "done" => PrintT(<<"CASE", ToJson([facts |-> SetToSeq(facts), det |-> cfg.det, format |-> cfg.format, empty |-> cfg.empty])>>)
=============================================================================
