------------------------------- MODULE VocabE1 -------------------------------
(* Vocabulary of scope E1 (DESIGN.md C01): EDB e/2, f/1; IDB p/1, q/1; variables X, Y. *)
EXTENDS Semantics
X == Var("X")
Y == Var("Y")
A(p, args) == [p |-> p, a |-> args]
E1Heads == {A("p", <<X>>), A("q", <<X>>), A("q", <<Y>>)}
E1Lits ==
  { <<"pos", A("e", <<X, Y>>)>>, <<"pos", A("e", <<Y, X>>)>>, <<"pos", A("e", <<X, X>>)>>,
    <<"pos", A("f", <<X>>)>>, <<"pos", A("p", <<X>>)>>, <<"pos", A("p", <<Y>>)>>,
    <<"pos", A("q", <<X>>)>>, <<"pos", A("q", <<Y>>)>>,
    <<"neg", A("p", <<X>>)>>, <<"neg", A("q", <<X>>)>>, <<"neg", A("f", <<X>>)>>,
    <<"ne", X, Y>> }
E1Transforms == {<<"none">>}
N1 == Num(1)
N2 == Num(2)
N3 == Num(3)
E1Edbs ==
  { {A("e", <<N1, N2>>), A("e", <<N2, N3>>), A("f", <<N1>>)},
    {A("e", <<N1, N1>>), A("e", <<N1, N2>>), A("e", <<N2, N1>>), A("f", <<N2>>)},
    \* base facts stated for predicates that rules may also define
    {A("e", <<N1, N2>>), A("e", <<N2, N3>>), A("f", <<N3>>), A("p", <<N1>>), A("q", <<N3>>)} }
KeepAll(r) == TRUE
KeepSafe(r) == Safe(r)
E1Bodies(k) == UNION {[1..j -> E1Lits] : j \in 1..k}
E1Rules(k) == {[h |-> hd, b |-> bd, t |-> <<"none">>] : hd \in E1Heads, bd \in E1Bodies(k)}
E1SafeRules(k) == {r \in E1Rules(k) : Safe(r)}
=============================================================================
