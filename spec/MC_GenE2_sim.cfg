SPECIFICATION Spec
CONSTANTS
  Heads <- E2Heads
  BodyLits <- E2Lits
  MaxBody = 4
  Transforms <- E2Transforms
  MaxRules = 4
  FixedRules = {}
  EdbChoices <- E2Edbs
  ExtraRules = {}
  Randomized = TRUE
  Keep <- KeepE2
INVARIANT Emit
CHECK_DEADLOCK FALSE
