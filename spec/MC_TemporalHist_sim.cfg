INIT Init
NEXT Next
CONSTANTS
  TAtoms <- TA
  TIvs <- TI
  TPats <- TP
  Points <- PT
  MaxLen = 16
  Randomized = TRUE
INVARIANT Emit
CHECK_DEADLOCK FALSE
