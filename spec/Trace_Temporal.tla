--------------------------- MODULE Trace_Temporal -----------------------------
(***************************************************************************)
(* Direction B for C13: recorded histories of the real TemporalStore       *)
(* (add / point, range and full queries / containsAt / count / coalesce),  *)
(* timestamps mapped to timeline indexes, are accepted iff every reply is  *)
(* the reply of TemporalStore.tla.  After a rejected event the rest of the *)
(* history is skipped; later histories are still checked.                  *)
(***************************************************************************)
EXTENDS TemporalStore, Json, IOUtils
Trace == ndJsonDeserialize(IOEnv.TRACE)
VARIABLES l, T, cfg, skipping
SetOf(q) == {q[i] : i \in DOMAIN q}
NoDup(q) == \A i, j \in DOMAIN q : i # j => q[i] # q[j]
Pairs(q) == {<<q[i][1], <<q[i][2][1], q[i][2][2]>>>> : i \in DOMAIN q}
IV(x) == <<x[1], x[2]>>
PredFacts(p) == {x \in T : x[1].p = p[1] /\ Len(x[1].a) = p[2]}

Agrees(e) ==
  CASE e.ev = "add"    -> <<e.r, e.err>> \in AddOutcomes(T, e.a, IV(e.iv), cfg.limit)
    [] e.ev = "at"     -> Pairs(e.r) = AtReply(T, e.pat, e.t) /\ NoDup(e.r)
    [] e.ev = "during" -> Pairs(e.r) = DuringReply(T, e.pat, IV(e.iv)) /\ NoDup(e.r)
    [] e.ev = "all"    -> Pairs(e.r) = AllReply(T, e.pat) /\ NoDup(e.r)
    [] e.ev = "has"    -> e.r = HoldsAt(T, e.a, e.t)
    [] e.ev = "count"  -> e.r = Cardinality(T)
    [] e.ev = "coalesce" -> CoalesceOK(PredFacts(e.pred), Pairs(e.after)) /\ NoDup(e.after)
    [] OTHER -> FALSE
Effect(e) ==
  CASE e.ev = "add" -> IF e.r THEN T \cup {<<e.a, IV(e.iv)>>} ELSE T
    [] e.ev = "coalesce" -> (T \ PredFacts(e.pred)) \cup Pairs(e.after)
    [] OTHER -> T
Expected(e) ==
  CASE e.ev = "add"    -> ToJson(AddOutcomes(T, e.a, IV(e.iv), cfg.limit))
    [] e.ev = "at"     -> ToJson(AtReply(T, e.pat, e.t))
    [] e.ev = "during" -> ToJson(DuringReply(T, e.pat, IV(e.iv)))
    [] e.ev = "all"    -> ToJson(AllReply(T, e.pat))
    [] e.ev = "has"    -> ToJson(HoldsAt(T, e.a, e.t))
    [] e.ev = "count"  -> ToJson(Cardinality(T))
    [] OTHER -> ToJson(PredFacts(e.pred))

Init == l = 1 /\ T = {} /\ cfg = [limit |-> 0] /\ skipping = FALSE
Reset == /\ l <= Len(Trace) /\ Trace[l].ev = "reset"
         /\ T' = {} /\ cfg' = Trace[l] /\ skipping' = FALSE /\ l' = l + 1
Step  == /\ l <= Len(Trace) /\ Trace[l].ev # "reset" /\ ~skipping
         /\ l' = l + 1 /\ UNCHANGED cfg
         /\ IF Agrees(Trace[l]) THEN T' = Effect(Trace[l]) /\ skipping' = FALSE
            ELSE /\ PrintT(<<"MISMATCH", cfg.id, l, Trace[l].ev, Expected(Trace[l])>>)
                 /\ skipping' = TRUE /\ UNCHANGED T
Skip  == /\ l <= Len(Trace) /\ Trace[l].ev # "reset" /\ skipping
         /\ l' = l + 1 /\ UNCHANGED <<T, cfg, skipping>>
Next == Reset \/ Step \/ Skip
Accepted == l = Len(Trace) + 1 => PrintT(<<"CONSUMED", Len(Trace)>>)
=============================================================================
