SPECIFICATION TraceSpec
CONSTANTS
  MergeTiming = "eager"
  DoFeedback = "rerun"
  TmpName = "fresh"
  Programs <- NoPrograms
INVARIANTS StepInv Accepted
CHECK_DEADLOCK FALSE
