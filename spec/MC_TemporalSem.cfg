INIT Init
NEXT Next
CONSTANT N = 3
INVARIANT T14
CHECK_DEADLOCK FALSE
