SPECIFICATION Spec
CONSTANTS
  Procs <- P3
  Atoms <- A2
  OpsOf <- Ops3
  SkipLock = {}
INVARIANT T18
CHECK_DEADLOCK FALSE
