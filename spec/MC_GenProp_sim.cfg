SPECIFICATION Spec
CONSTANTS
  Heads <- PRHeads
  BodyLits <- PRLits
  MaxBody = 2
  Transforms <- PRTransforms
  MaxRules = 4
  FixedRules = {}
  EdbChoices <- PREdbs
  ExtraRules = {}
  Randomized = TRUE
  Keep <- KeepSafe
INVARIANT Emit
CHECK_DEADLOCK FALSE
