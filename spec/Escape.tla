-------------------------------- MODULE Escape --------------------------------
(***************************************************************************)
(* Layer 3 - escaping and unescaping of string and byte-string literals    *)
(* (ast/serde.go, lexer rules STRING / BYTESTRING) over a SYMBOLIC         *)
(* character alphabet.  A string is a sequence of character classes:       *)
(*   "plain" "space" "dq" "sq" "bt" "bs" "lf" "cr" "tab" "nul" "del" "pct" *)
(*   "slash" "n" "t" "x" "u" "hex" "lb" "rb" "u2" "u3" "u4" (2-, 3-, 4-byte *)
(*   runes) "repl" (U+FFFD, the valid code point that decoders also return *)
(*   for an encoding error) "bad" (a byte that is not UTF-8; byte strings) *)
(* The escaped text is a sequence of tokens: <<"raw", c>> stands for the      *)
(* character itself, <<"esc", c>> for backslash + c, <<"hexesc", class>>   *)
(* for \xHH and <<"uniesc", class>> for \u{...}.                           *)
(* CRMode = "hex" is the design (a carriage return is written as \x0d);    *)
(* "raw" writes it verbatim, where the reader's newline normalisation      *)
(* turns it into a line feed (the code before the fix).                    *)
(***************************************************************************)
EXTENDS Sequences, FiniteSets, Naturals, TLC
CONSTANT CRMode
Classes == {"plain", "space", "dq", "sq", "bt", "bs", "lf", "cr", "tab", "nul", "del", "pct", "slash",
            "n", "t", "x", "u", "hex", "lb", "rb", "u2", "u3", "u4", "repl"}
ByteClasses == Classes \cup {"bad"}

EscChar(c, isBytes) ==
  IF isBytes
  THEN (IF c \in {"dq", "sq", "lf", "tab", "bs", "u2", "u3", "u4", "repl", "bad"} \/ (c = "cr" /\ CRMode = "hex") THEN <<"hexesc", c>> ELSE <<"raw", c>>)
  ELSE CASE c \in {"dq", "sq", "bs"} -> <<"esc", c>>
         [] c = "lf" -> <<"esc", "n">>
         [] c = "tab" -> <<"esc", "t">>
         [] c = "cr" -> IF CRMode = "hex" THEN <<"hexesc", "cr">> ELSE <<"raw", "cr">>
         [] c \in {"u2", "u3", "u4", "repl"} -> <<"uniesc", c>>
         [] OTHER -> <<"raw", c>>
Escape(s, isBytes) == [i \in DOMAIN s |-> EscChar(s[i], isBytes)]

\* the reader: raw carriage returns become line feeds in strings (newline normalisation), escapes are decoded
UnescTok(tk, isBytes) ==
  IF tk = <<"raw", "cr">> /\ ~isBytes THEN "lf"
  ELSE IF tk[1] = "raw" THEN tk[2]
  ELSE IF tk[1] = "esc" THEN (IF tk[2] = "n" THEN "lf" ELSE IF tk[2] = "t" THEN "tab" ELSE tk[2])
  ELSE tk[2]
Unescape(toks, isBytes) == [i \in DOMAIN toks |-> UnescTok(toks[i], isBytes)]

\* the lexer accepts the literal: no unescaped delimiter or backslash inside
Lexes(toks) == \A i \in DOMAIN toks : toks[i] \notin {<<"raw", "dq">>, <<"raw", "bs">>}

T09(s, isBytes) == Lexes(Escape(s, isBytes)) /\ Unescape(Escape(s, isBytes), isBytes) = s
=============================================================================
