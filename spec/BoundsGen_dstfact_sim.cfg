INIT Init
NEXT Next
CONSTANT Randomized = TRUE
CONSTANT Family = "dstfact"
INVARIANT Emit
CHECK_DEADLOCK FALSE
