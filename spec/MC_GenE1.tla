------------------------------ MODULE MC_GenE1 ------------------------------
(* Scope E1 of DESIGN.md section C01 as an instance of the program grammar machine. *)
EXTENDS ProgGen, VocabE1
=============================================================================
