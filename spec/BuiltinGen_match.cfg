INIT Init
NEXT Next
CONSTANT Mode = "match"
INVARIANTS Emit T07
CHECK_DEADLOCK FALSE
