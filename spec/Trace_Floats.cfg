INIT Init
NEXT Next
CONSTANT Style = "positional"
INVARIANT Accepted
CHECK_DEADLOCK FALSE
