SPECIFICATION Spec
CONSTANTS
  Heads = {}
  BodyLits = {}
  MaxBody = 1
  Transforms = {}
  MaxRules = 3
  FixedRules = {}
  EdbChoices <- LimitEdbs
  ExtraRules <- LimitRules
  Randomized = FALSE
  Keep <- KeepAll
INVARIANT Emit
CHECK_DEADLOCK FALSE
