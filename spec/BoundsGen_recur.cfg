INIT Init
NEXT Next
CONSTANT Randomized = FALSE
CONSTANT Family = "recur"
INVARIANT Emit
CHECK_DEADLOCK FALSE
