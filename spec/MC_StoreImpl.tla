----------------------------- MODULE MC_StoreImpl -----------------------------
EXTENDS StoreImpl
A4 == {"p1", "p2", "plist1", "p65792"}
\* p([1]) and p(65792) have the same Atom.Hash() in the real code
H(a) == IF a \in {"plist1", "p65792"} THEN 7 ELSE IF a = "p1" THEN 1 ELSE 2
=============================================================================
