INIT Init
NEXT Next
CONSTANT Mode = "arith"
INVARIANTS Emit T07
CHECK_DEADLOCK FALSE
