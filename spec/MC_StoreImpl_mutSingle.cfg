SPECIFICATION Spec
CONSTANTS
  Atoms <- A4
  Hash <- H
  Bucket = "single"
INVARIANT T06
CHECK_DEADLOCK FALSE
