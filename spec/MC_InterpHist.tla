----------------------------- MODULE MC_InterpHist -----------------------------
EXTENDS InterpHist
X == Var("X")
A(p, args) == [p |-> p, a |-> args]
Fact(p, args) == [h |-> A(p, args), b |-> <<>>, t |-> <<"none">>]
Rule(hd, bd) == [h |-> hd, b |-> bd, t |-> <<"none">>]
\* a fact / rule whose head carries the eternal annotation @[_]: it is written to the temporal store although no
\* predicate is declared temporal
FactE(p, args) == [h |-> A(p, args), b |-> <<>>, t |-> <<"none">>, ht |-> <<"eternal">>]
RuleE(hd, bd) == [h |-> hd, b |-> bd, t |-> <<"none">>, ht |-> <<"eternal">>]
DeclE(p, args) == [h |-> A(p, args), b |-> <<>>, t |-> <<"none">>, decl |-> TRUE]
L == [ id |-> "lib1",
       files |-> [ f1 |-> << Fact("base", <<Num(1)>>), Fact("base", <<Num(2)>>), Rule(A("p", <<X>>), <<<<"pos", A("base", <<X>>)>>>>) >>,
                   f2 |-> << Rule(A("q", <<X>>), <<<<"pos", A("p", <<X>>)>>, <<"neg", A("blocked", <<X>>)>>>>), Fact("blocked", <<Num(2)>>) >>,
                   f3 |-> << Fact("r", <<Num(1)>>), Fact("r", <<Num(5)>>) >>,
                   \* a fragment that contributes no fact at all (its only rule derives nothing)
                   f5 |-> << Rule(A("n", <<X>>), <<<<"pos", A("n", <<X>>)>>>>) >>,
                   \* a predicate declared extensional() with one fact: later fragments may add facts to it
                   f6 |-> << DeclE("station", <<X>>), Fact("station", <<Num(0)>>) >>,
                   f4 |-> << Fact("g", <<Num(1)>>), RuleE(A("always", <<X>>), <<<<"pos", A("g", <<X>>)>>>>) >> ],
       texts |-> [ d1 |-> [valid |-> TRUE,  clauses |-> << Rule(A("s", <<X>>), <<<<"pos", A("r", <<X>>)>>>>) >>],
                   d2 |-> [valid |-> TRUE,  clauses |-> << Fact("s", <<Num(7)>>) >>],
                   d3 |-> [valid |-> TRUE,  clauses |-> << Rule(A("t", <<X>>), <<<<"pos", A("base", <<X>>)>>, <<"neg", A("q", <<X>>)>>>>) >>],
                   d4 |-> [valid |-> FALSE, clauses |-> << Fact("bad", <<Num(0)>>) >>],
                   d5 |-> [valid |-> TRUE,  clauses |-> << Rule(A("v", <<X>>), <<<<"pos", A("nosuch", <<X>>)>>>>) >>],
                   d6 |-> [valid |-> TRUE,  clauses |-> << Fact("p", <<Num(9)>>) >>],
                   d7 |-> [valid |-> TRUE,  clauses |-> << Fact("w", <<Num(1)>>) >>],
                   \* accepted by the parser and by analysis, rejected only when evaluated (division by zero):
                   \* d8 always (it brings its own fact), d9 only on top of file f1 (base(1) makes the divisor zero)
                   d8 |-> [valid |-> TRUE,  clauses |-> << Fact("z", <<Num(7)>>),
                                                           Rule(A("y", <<X>>), <<<<"pos", A("z", <<Var("Y")>>)>>, <<"eq", X, Ap("fn:div", <<Var("Y"), Num(0)>>)>>>>) >>],
                   d10 |-> [valid |-> TRUE, clauses |-> << FactE("seen", <<Nm("/a")>>) >>],
                   d11 |-> [valid |-> TRUE, clauses |-> << FactE("always", <<Num(2)>>) >>],
                   d12 |-> [valid |-> TRUE, clauses |-> << Fact("station", <<Num(1)>>) >>],
                   d13 |-> [valid |-> TRUE, clauses |-> << Rule(A("open", <<X>>), <<<<"pos", A("station", <<X>>)>>>>) >>],
                   d9 |-> [valid |-> TRUE,  clauses |-> << Rule(A("u", <<X>>), <<<<"pos", A("base", <<Var("Y")>>)>>,
                                                                              <<"eq", X, Ap("fn:div", <<Num(6), Ap("fn:minus", <<Var("Y"), Num(1)>>)>>)>>>>) >>] ] ]
TI == {"d1", "d2", "d3", "d4", "d5", "d6", "d7", "d8", "d9", "d10", "d11", "d12", "d13"}
FS == {{"f1"}, {"f2"}, {"f3"}, {"f1", "f3"}, {"f4"}, {"f5"}, {"f6"}}
=============================================================================
