-------------------------- MODULE MC_ConcurrentStore --------------------------
EXTENDS ConcurrentStore
P3 == {"g1", "g2", "g3"}
A2 == {"a", "b"}
Op(k, a) == [k |-> k, a |-> a]
Ops3(p) ==
  CASE p = "g1" -> <<[k |-> "merge", from |-> {"a", "b"}], Op("rm", "a")>>
    [] p = "g2" -> <<[k |-> "query"], Op("add", "b"), [k |-> "query"]>>
    [] p = "g3" -> <<Op("has", "a"), Op("rm", "b"), Op("add", "a")>>
=============================================================================
