INIT Init
NEXT Next
CONSTANT Mode = "cmp"
INVARIANTS Emit T07
CHECK_DEADLOCK FALSE
