---------------------------- MODULE MC_Stratifier ----------------------------
EXTENDS Stratifier
N3 == {"a", "b", "c"}
AllGraphs3 == [N3 \X N3 -> {"none", "pos", "neg"}]
NoDrop(g) == g
\* mutant: mentions between "a" and "b" are invisible to the graph builder (temporal literals before the fix)
DropAB(g) == [e \in DOMAIN g |-> IF e = <<"a", "b">> THEN "none" ELSE g[e]]
=============================================================================
