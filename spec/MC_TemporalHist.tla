---------------------------- MODULE MC_TemporalHist ----------------------------
EXTENDS TemporalHist
F(p, args) == [p |-> p, a |-> args]
TA == {F("ta", <<Num(1)>>), F("ta", <<Num(2)>>), F("tb", <<Num(1)>>)}
\* closed, point, nested, touching, adjacent (gap 1), half-unbounded, eternal and one invalid interval
TI == {<<0, 1>>, <<1, 1>>, <<0, 3>>, <<2, 3>>, <<1, 2>>, <<3, 4>>, <<4, 4>>, <<2, 2>>, <<NEG, 1>>, <<3, POS>>, <<NEG, POS>>, <<3, 1>>}
TP == {F("ta", <<<<"v", "X">>>>), F("ta", <<Num(1)>>), F("tb", <<<<"v", "X">>>>), F("tc", <<<<"v", "X">>>>)}
PT == (-1)..5
=============================================================================
