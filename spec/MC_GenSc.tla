------------------------------ MODULE MC_GenSc --------------------------------
EXTENDS ScGen
F(p, args) == [p |-> p, a |-> args]
\* constants of every kind, including the characters the line format has to survive
K == { Num(0), Num(-7), Num(65792), Str("a"), Str(""), Str("a\"b"), Str("a\\b"), Str("two\nlines"), Str("tab\there"), Str("ff\fhere"),
       Str("uni\\u00e9"), Str("/notaname"), Str("100%"),
       Nm("/a"), Nm("/a/b"), Nm("/a.b"), Nm("/a-b_c"), Nm("/a%41b"), Nm("/a~b"), Nm("/1"),
       <<"f", "1.5">>, <<"f", "1">>, <<"f", "-0.25">>, <<"f", "1e+21">>,
       <<"y", "bytes">>, <<"y", "b\"q">>,
       Tm(0), Tm(1700000000), Du(0), Du(90),
       Pair(Num(1), Str("x")), Pair(Nm("/a"), Pair(Num(1), Num(2))),
       List(<<>>), List(<<Num(1), Num(2)>>), List(<<Str("a"), List(<<Nm("/b")>>)>>),
       MapV(<<<<Nm("/k"), Num(1)>>>>), MapV(<<<<Num(1), Str("one")>>, <<Num(2), Str("two")>>>>),
       StructV(<<<<Nm("/f"), Num(1)>>, <<Nm("/g"), Str("s")>>>>) }
K2 == {Num(1), Str("x y"), Nm("/n"), List(<<Num(3)>>)}
U == {F("z", <<>>)} \cup {F("p", <<k>>) : k \in K} \cup {F("q", <<k, j>>) : k \in K, j \in K2} \cup {F("r", <<j, k, j>>) : k \in K2, j \in K2}
     \* one name at two arities: p/1 beside p/2, z/0 beside z/1 (a header entry is a name AND an arity)
     \cup {F("p", <<k, j>>) : k \in K2, j \in K2} \cup {F("z", <<k>>) : k \in K2} \cup {F("p", <<List(<<Num(1)>>)>>)}
\* facts of one predicate whose atoms have equal hashes (a number hashes to itself, [] and "" and 0 to 0, [1] to 65792)
HotFacts == {F("p", <<Num(0)>>), F("p", <<List(<<>>)>>), F("p", <<Str("")>>), F("p", <<Num(65792)>>), F("p", <<List(<<Num(1)>>)>>)}
=============================================================================
