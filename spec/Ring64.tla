-------------------------------- MODULE Ring64 --------------------------------
(***************************************************************************)
(* Layer 0 - 64-bit two's-complement integers at the boundaries (C07).     *)
(* TLC's integers are 32 bit, so an int64 is represented symbolically as   *)
(*     w = <<a, b>>   meaning   a * 2^63 + b  (mod 2^64),  a \in {0,1},    *)
(* with b a small integer.  Its signed reading is                          *)
(*     a = 0          : b                                                  *)
(*     a = 1, b >= 0  : MinInt64 + b                                       *)
(*     a = 1, b <  0  : MaxInt64 + 1 + b     (= MaxInt64 - (-b - 1))       *)
(* Because 2 * 2^63 = 0 and 2^63 * 2^63 = 0 (mod 2^64), ring arithmetic on  *)
(* the pairs is exact:                                                     *)
(*     <<a1,b1>> + <<a2,b2>> = <<a1 (+) a2, b1 + b2>>                      *)
(*     <<a1,b1>> * <<a2,b2>> = <<(a1*b2 + a2*b1) mod 2, b1 * b2>>          *)
(* Truncating division is defined where the quotient is representable:     *)
(* small / small, huge / huge (quotient -1, 0 or 1 by magnitudes),         *)
(* small / huge (0), and x / 1, x / -1 (MinInt64 / -1 wraps to MinInt64,    *)
(* as the Go specification says).  Huge / other small divisors gives a     *)
(* quotient around 2^62, outside the representation: Undef.                *)
(***************************************************************************)
EXTENDS Integers, TLC
Undef == <<"undef">>
W(a, b) == <<a, b>>
IsW(w) == w # Undef
Small(n) == W(0, n)
Max64(d) == W(1, -1 - d)      \* MaxInt64 - d
Min64(d) == W(1, d)           \* MinInt64 + d
Mod2(n) == IF n % 2 = 0 THEN 0 ELSE 1
Xor(a1, a2) == Mod2(a1 + a2)

Add(x, y) == W(Xor(x[1], y[1]), x[2] + y[2])
Neg(x) == W(x[1], -x[2])                       \* -(a*2^63 + b) = a*2^63 - b  (since -2^63 = 2^63)
Sub(x, y) == Add(x, Neg(y))
Mul(x, y) == W(Mod2(x[1] * y[2] + y[1] * x[2]), x[2] * y[2])

\* sign and order of the signed reading
IsNeg(x) == IF x[1] = 0 THEN x[2] < 0 ELSE x[2] >= 0
IsZero(x) == x = W(0, 0)
Less(x, y) ==    \* signed comparison
  LET zone(w) == IF w[1] = 0 THEN 1 ELSE IF w[2] >= 0 THEN 0 ELSE 2 IN   \* bottom zone < small < top zone
  IF zone(x) # zone(y) THEN zone(x) < zone(y) ELSE x[2] < y[2]
\* |x| < |y| for huge x, y (magnitudes: |MinInt64 + d| = 2^63 - d, |MaxInt64 - d| = 2^63 - 1 - d)
MagDefect(w) == IF w[2] >= 0 THEN w[2] ELSE -w[2]     \* 2^63 - |w| for a huge w
Huge(w) == w[1] = 1
MagLess(x, y) == MagDefect(x) > MagDefect(y)           \* both huge
MagEq(x, y) == MagDefect(x) = MagDefect(y)

\* Go's truncating division on the representation
TDivZ(p, q) == LET s == (IF p < 0 THEN -1 ELSE 1) * (IF q < 0 THEN -1 ELSE 1)
                   ap == IF p < 0 THEN -p ELSE p  aq == IF q < 0 THEN -q ELSE q IN s * (ap \div aq)
Div(x, y) ==
  IF IsZero(y) THEN Undef
  ELSE IF ~Huge(x) /\ ~Huge(y) THEN Small(TDivZ(x[2], y[2]))
  ELSE IF ~Huge(x) /\ Huge(y) THEN Small(0)
  ELSE IF Huge(x) /\ y = Small(1) THEN x
  ELSE IF Huge(x) /\ y = Small(-1) THEN Neg(x)           \* MinInt64 / -1 = MinInt64
  ELSE IF Huge(x) /\ Huge(y) THEN
         (IF MagLess(x, y) THEN Small(0)
          ELSE Small(IF IsNeg(x) = IsNeg(y) THEN 1 ELSE -1))   \* |y| <= |x| < 2 |y| in the boundary zones
  ELSE Undef
Mod(x, y) == LET q == Div(x, y) IN IF q = Undef THEN Undef ELSE Sub(x, Mul(q, y))

\* the law of truncating division, in the ring
DivModLaw(x, y) == (Div(x, y) # Undef) => (Add(Mul(Div(x, y), y), Mod(x, y)) = x)
=============================================================================
