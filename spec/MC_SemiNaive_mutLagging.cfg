SPECIFICATION Spec
CONSTANTS
  MergeTiming = "lagging"
  TmpName = "fresh"
  Programs <- ProgramsSmall
INVARIANTS T01
CHECK_DEADLOCK FALSE
