INIT Init
NEXT Next
CONSTANTS
  Tokens <- Toks
  MaxLen = 2
  NSeeds = 35
  MaxPos = 30
  ReplTokens <- Repl
  NScSeeds = 14
  Mode = "edits"
INVARIANT Emit
CHECK_DEADLOCK FALSE
