---------------------------- MODULE MC_SimpleColumn ----------------------------
(* T19 over all stores of <= 3 facts over {z/0, p/1, q/2} (+ an empty listed predicate e/1),
   every listing order of the predicates and every ordering of each predicate's facts.        *)
EXTENDS SimpleColumn, TLC
VARIABLES S, preds, order, file
F(p, args) == [p |-> p, a |-> args]
U == {F("z", <<>>), F("p", <<Num(1)>>), F("p", <<Num(2)>>), F("q", <<Num(1), Num(2)>>), F("q", <<Num(2), Num(2)>>), F("q", <<Num(1), Str("x")>>)}
AllPreds == {<<"z", 0>>, <<"p", 1>>, <<"q", 2>>, <<"e", 1>>}
Pats == {F("p", <<<<"v", "X">>>>), F("p", <<Num(2)>>), F("q", <<<<"v", "X">>, Num(2)>>), F("q", <<Num(1), <<"v", "Y">>>>),
         F("z", <<>>), F("e", <<<<"v", "X">>>>), F("r", <<<<"v", "X">>>>)}
Perms(T) == {q \in [1..Cardinality(T) -> T] : \A i, j \in DOMAIN q : i # j => q[i] # q[j]}
Init == /\ S \in {T \in SUBSET U : Cardinality(T) <= 3}
        /\ preds \in UNION {Perms(L) : L \in {L \in SUBSET AllPreds : {PredOf(f) : f \in S} \subseteq L}}
        /\ order \in [AllPreds -> UNION {Perms(FactsOf(S, p)) : p \in AllPreds}]
        /\ \A p \in AllPreds : Ran(order[p]) = FactsOf(S, p) /\ Len(order[p]) = Cardinality(FactsOf(S, p))
        /\ file = Write(preds, order)
Next == UNCHANGED <<S, preds, order, file>>
T19 == /\ ReadInto(file) = S
       /\ \A pat \in Pats : LazyGet(file, pat) = QueryReply({}, S, pat)
=============================================================================
