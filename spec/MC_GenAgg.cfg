SPECIFICATION Spec
CONSTANTS
  Heads = {}
  BodyLits = {}
  MaxBody = 1
  Transforms = {}
  MaxRules = 2
  FixedRules <- TC
  EdbChoices <- AggEdbs
  ExtraRules <- AggExtra
  Randomized = FALSE
  Keep <- KeepAll
INVARIANT Emit
CHECK_DEADLOCK FALSE
