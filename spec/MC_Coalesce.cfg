INIT Init
NEXT Next
INVARIANT T13c
CHECK_DEADLOCK FALSE
