------------------------------- MODULE VocabNL -------------------------------
(* Vocabulary of scope NL: non-linear recursion. One binary IDB predicate r (seeded from the
   EDB relation l by a fixed rule) may occur twice in a body, in every argument pattern over
   X, Y, Z; a ternary EDB t joins two r-facts. The semi-naive engine needs one delta rule per
   body occurrence: a fact that is only derivable with an OLD fact in the first occurrence and a
   fact of the LATEST round in the second one (or the other way round) is lost otherwise.      *)
EXTENDS Semantics
X == Var("X")
Y == Var("Y")
Z == Var("Z")
A(p, args) == [p |-> p, a |-> args]
NLHeads == {A("r", <<X, Z>>), A("r", <<X, Y>>), A("r", <<Z, X>>), A("s", <<X>>)}
NLLits ==
  { <<"pos", A("r", <<X, Y>>)>>, <<"pos", A("r", <<Y, Z>>)>>, <<"pos", A("r", <<Y, X>>)>>,
    <<"pos", A("r", <<Z, Y>>)>>, <<"pos", A("r", <<X, X>>)>>,
    <<"pos", A("l", <<X, Y>>)>>, <<"pos", A("l", <<Y, Z>>)>>,
    <<"pos", A("s", <<X>>)>>, <<"pos", A("s", <<Y>>)>>,
    <<"pos", A("t", <<X, Y, Z>>)>>, <<"neg", A("l", <<X, Z>>)>> }
NLTransforms == {<<"none">>}
N1 == Num(1)
N2 == Num(2)
N3 == Num(3)
N4 == Num(4)
NLFixed == {[h |-> A("r", <<X, Y>>), b |-> <<<<"pos", A("l", <<X, Y>>)>>>>, t |-> <<"none">>]}
NLEdbs ==
  { {A("l", <<N1, N2>>)},
    {A("l", <<N1, N2>>), A("l", <<N2, N3>>), A("l", <<N3, N4>>), A("t", <<N1, N2, N3>>), A("t", <<N1, N3, N4>>)},
    {A("l", <<N1, N1>>), A("l", <<N2, N3>>), A("t", <<N1, N1, N2>>), A("t", <<N1, N2, N3>>), A("t", <<N2, N1, N4>>)},
    \* base facts stated for predicates that rules also define (the recursion is seeded by facts of s and r themselves)
    {A("l", <<N1, N2>>), A("l", <<N2, N3>>), A("s", <<N4>>), A("t", <<N1, N2, N3>>), A("t", <<N4, N1, N2>>), A("l", <<N4, N1>>)},
    {A("l", <<N1, N2>>), A("l", <<N2, N3>>), A("r", <<N4, N2>>), A("r", <<N4, N4>>), A("t", <<N1, N2, N3>>)} }
KeepSafe(r) == Safe(r)
=============================================================================
