SPECIFICATION Spec
CONSTANTS
  Heads <- E2Heads
  BodyLits <- E2Lits
  MaxBody = 2
  Transforms <- E2Transforms
  MaxRules = 1
  FixedRules = {}
  EdbChoices <- E2Edbs
  ExtraRules = {}
  Randomized = FALSE
  Keep <- KeepE2
INVARIANT Emit
CHECK_DEADLOCK FALSE
