---- MODULE Trace_Types_TTrace_1790188611 ----
EXTENDS Sequences, TLCExt, Trace_Types, Toolbox, Naturals, TLC

_expression ==
    LET Trace_Types_TEExpression == INSTANCE Trace_Types_TEExpression
    IN Trace_Types_TEExpression!expression
----

_trace ==
    LET Trace_Types_TETrace == INSTANCE Trace_Types_TETrace
    IN Trace_Types_TETrace!trace
----

_inv ==
    ~(
        TLCGet("level") = Len(_TETrace)
        /\
        l = (67)
    )
----

_init ==
    /\ l = _TETrace[1].l
----

_next ==
    /\ \E i,j \in DOMAIN _TETrace:
        /\ \/ /\ j = i + 1
              /\ i = TLCGet("level")
        /\ l  = _TETrace[i].l
        /\ l' = _TETrace[j].l

\* Uncomment the ASSUME below to write the states of the error trace
\* to the given file in Json format. Note that you can pass any tuple
\* to `JsonSerialize`. For example, a sub-sequence of _TETrace.
    \* ASSUME
    \*     LET J == INSTANCE Json
    \*         IN J!JsonSerialize("Trace_Types_TTrace_1790188611.json", _TETrace)

=============================================================================

 Note that you can extract this module `Trace_Types_TEExpression`
  to a dedicated file to reuse `expression` (the module in the 
  dedicated `Trace_Types_TEExpression.tla` file takes precedence 
  over the module `Trace_Types_TEExpression` below).

---- MODULE Trace_Types_TEExpression ----
EXTENDS Sequences, TLCExt, Trace_Types, Toolbox, Naturals, TLC

expression == 
    [
        \* To hide variables of the `Trace_Types` spec from the error trace,
        \* remove the variables below.  The trace will be written in the order
        \* of the fields of this record.
        l |-> l
        
        \* Put additional constant-, state-, and action-level expressions here:
        \* ,_stateNumber |-> _TEPosition
        \* ,_lUnchanged |-> l = l'
        
        \* Format the `l` variable as Json value.
        \* ,_lJson |->
        \*     LET J == INSTANCE Json
        \*     IN J!ToJson(l)
        
        \* Lastly, you may build expressions over arbitrary sets of states by
        \* leveraging the _TETrace operator.  For example, this is how to
        \* count the number of times a spec variable changed up to the current
        \* state in the trace.
        \* ,_lModCount |->
        \*     LET F[s \in DOMAIN _TETrace] ==
        \*         IF s = 1 THEN 0
        \*         ELSE IF _TETrace[s].l # _TETrace[s-1].l
        \*             THEN 1 + F[s-1] ELSE F[s-1]
        \*     IN F[_TEPosition - 1]
    ]

=============================================================================



Parsing and semantic processing can take forever if the trace below is long.
 In this case, it is advised to uncomment the module below to deserialize the
 trace from a generated binary file.

\*
\*---- MODULE Trace_Types_TETrace ----
\*EXTENDS IOUtils, Trace_Types, TLC
\*
\*trace == IODeserialize("Trace_Types_TTrace_1790188611.bin", TRUE)
\*
\*=============================================================================
\*

---- MODULE Trace_Types_TETrace ----
EXTENDS Trace_Types, TLC

trace == 
    <<
    ([l |-> 2]),
    ([l |-> 3]),
    ([l |-> 4]),
    ([l |-> 5]),
    ([l |-> 6]),
    ([l |-> 7]),
    ([l |-> 8]),
    ([l |-> 9]),
    ([l |-> 10]),
    ([l |-> 11]),
    ([l |-> 12]),
    ([l |-> 13]),
    ([l |-> 14]),
    ([l |-> 15]),
    ([l |-> 16]),
    ([l |-> 17]),
    ([l |-> 18]),
    ([l |-> 19]),
    ([l |-> 20]),
    ([l |-> 21]),
    ([l |-> 22]),
    ([l |-> 23]),
    ([l |-> 24]),
    ([l |-> 25]),
    ([l |-> 26]),
    ([l |-> 27]),
    ([l |-> 28]),
    ([l |-> 29]),
    ([l |-> 30]),
    ([l |-> 31]),
    ([l |-> 32]),
    ([l |-> 33]),
    ([l |-> 34]),
    ([l |-> 35]),
    ([l |-> 36]),
    ([l |-> 37]),
    ([l |-> 38]),
    ([l |-> 39]),
    ([l |-> 40]),
    ([l |-> 41]),
    ([l |-> 42]),
    ([l |-> 43]),
    ([l |-> 44]),
    ([l |-> 45]),
    ([l |-> 46]),
    ([l |-> 47]),
    ([l |-> 48]),
    ([l |-> 49]),
    ([l |-> 50]),
    ([l |-> 51]),
    ([l |-> 52]),
    ([l |-> 53]),
    ([l |-> 54]),
    ([l |-> 55]),
    ([l |-> 56]),
    ([l |-> 57]),
    ([l |-> 58]),
    ([l |-> 59]),
    ([l |-> 60]),
    ([l |-> 61]),
    ([l |-> 62]),
    ([l |-> 63]),
    ([l |-> 64]),
    ([l |-> 65]),
    ([l |-> 66]),
    ([l |-> 67])
    >>
----


=============================================================================

---- CONFIG Trace_Types_TTrace_1790188611 ----

INVARIANT
    _inv

CHECK_DEADLOCK
    \* CHECK_DEADLOCK off because of PROPERTY or INVARIANT above.
    FALSE

INIT
    _init

NEXT
    _next

CONSTANT
    _TETrace <- _trace

ALIAS
    _expression
=============================================================================
\* Generated on Wed Sep 23 18:36:53 UTC 2026