----------------------------- MODULE StratMeaning -----------------------------
(***************************************************************************)
(* What a stratification IS (property C03), independent of any algorithm.  *)
(* g \in [nodes \X nodes -> {"none","pos","neg"}]; g[<<p,q>>] labels the    *)
(* mention of q in the body of a rule for p.                               *)
(***************************************************************************)
EXTENDS Integers, Sequences, FiniteSets, TLC

ReachOn(g, nodes) ==
  LET RECURSIVE Close(_)
      Close(R) == LET R3 == R \cup UNION {{<<a[1], b[2]>> : b \in {x \in R : x[1] = a[2]}} : a \in R} IN
                  IF R3 = R THEN R ELSE Close(R3)
  IN Close({<<n, n>> : n \in nodes} \cup {e \in nodes \X nodes : g[e] # "none"})
\* some dependency cycle passes through a negated / aggregated mention
NegCycleOn(g, nodes) == \E a, b \in nodes : g[<<a, b>>] = "neg" /\ <<b, a>> \in ReachOn(g, nodes)
LayerOf(layers, n) == CHOOSE i \in DOMAIN layers : n \in layers[i]
IsStratificationOn(layers, g, nodes) ==
  /\ UNION {layers[i] : i \in DOMAIN layers} = nodes
  /\ \A i, j \in DOMAIN layers : i # j => layers[i] \cap layers[j] = {}
  /\ \A a, b \in nodes :
       /\ g[<<a, b>>] = "pos" => LayerOf(layers, b) <= LayerOf(layers, a)
       /\ g[<<a, b>>] = "neg" => LayerOf(layers, b) < LayerOf(layers, a)
       /\ (<<a, b>> \in ReachOn(g, nodes) /\ <<b, a>> \in ReachOn(g, nodes)) => LayerOf(layers, a) = LayerOf(layers, b)
=============================================================================
