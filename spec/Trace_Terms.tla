------------------------------ MODULE Trace_Terms -----------------------------
(***************************************************************************)
(* Direction B for C08 and C09.  Line 1: the universe.  "obj" lines: one   *)
(* object per (value, construction route) with its printed form, hash and  *)
(* the row of library Equals answers against every object.  "roundtrip"    *)
(* lines: printed form parsed back and evaluated, both sides dumped        *)
(* structurally.  Judged here:                                             *)
(*  C08  Equals(i,j) <=> same abstract value (so: an equivalence);         *)
(*       equal => equal hash and equal printed form (constants and atoms); *)
(*       equal printed form => equal value                                 *)
(*  C09  the printed form parses, and parses back to the same value        *)
(***************************************************************************)
EXTENDS Values, Json, IOUtils
Trace == ndJsonDeserialize(IOEnv.TRACE)
VARIABLE l
NObj == Trace[1].nobj
Obj(i) == Trace[i + 1]
Init == l = 2
CheckObj(e) ==
  \A j \in 1..NObj :
     LET o == Obj(j)  same == e.vid = o.vid IN
     /\ (e.eq[j] = same) \/ PrintT(<<"MISMATCH", e.id, j, IF same THEN "EQUAL_VALUES_NOT_EQUAL" ELSE "DISTINCT_VALUES_EQUAL", "null">>)
     /\ (same => e.hash = o.hash) \/ PrintT(<<"MISMATCH", e.id, j, "EQUAL_VALUES_DIFFERENT_HASH", "null">>)
     /\ (same => e.str = o.str) \/ PrintT(<<"MISMATCH", e.id, j, "EQUAL_VALUES_DIFFERENT_PRINT", "null">>)
     /\ (same => (e.atom_hash = o.atom_hash /\ e.atom_str = o.atom_str)) \/ PrintT(<<"MISMATCH", e.id, j, "EQUAL_ATOMS_DIFFER", "null">>)
     /\ (e.str = o.str => same) \/ PrintT(<<"MISMATCH", e.id, j, "SAME_PRINT_DIFFERENT_VALUES", "null">>)
CheckRT(e) ==
  /\ (e.err = "") \/ PrintT(<<"MISMATCH", e.id, 0, "PRINTED_FORM_DOES_NOT_PARSE", "null">>)
  /\ (e.err # "" \/ (e.original = e.reparsed /\ e.equals)) \/ PrintT(<<"MISMATCH", e.id, 0, "ROUNDTRIP_CHANGED_VALUE", "null">>)
Next == /\ l <= Len(Trace) /\ l' = l + 1
        /\ CASE Trace[l].ev = "obj" -> CheckObj(Trace[l])
             [] Trace[l].ev = "roundtrip" -> CheckRT(Trace[l])
             [] OTHER -> TRUE
Accepted == l = Len(Trace) + 1 => PrintT(<<"CONSUMED", Len(Trace)>>)
=============================================================================
