------------------------------ MODULE SemiNaive -----------------------------
(***************************************************************************)
(* Layer 3 - the semi-naive bottom-up engine as a state machine, one action*)
(* per critical section of engine/seminaivebottomup.go:                    *)
(*   LoadFacts     evalStrata: initial facts into the store                *)
(*   BeginStratum  evalStrata: rewrite.Rewrite of the stratum's rules      *)
(*   FirstRound    eval: every plain rule once against the store           *)
(*   Merge0        eval: mergeDelta before the incremental loop            *)
(*   DeltaRound    eval: one pass of all delta rules + mergeDelta          *)
(*   DoPhase       eval: do-transform rules once after the fixpoint        *)
(*   LimitTrip     any of the created-fact limit checks                    *)
(* Deviations of the code from the intended design are constant-selected   *)
(* variants so that traces of either are explainable:                      *)
(*   MergeTiming = "eager"   new delta is in the store before the next     *)
(*                           round (design; the code after fix 61154e7)    *)
(*               = "lagging" the previous delta is merged again (the code  *)
(*                           before the fix)                               *)
(*   TmpName     = "fresh" | "constant"   (rewrite.freshPredicateName)     *)
(*   DoFeedback  = "rerun"   facts added by do-transforms are the delta of *)
(*                           further incremental rounds (after the fix)    *)
(*               = "none"    they are only added to the store (before)     *)
(*   Resume        a second EvalProgram call on the store the first one    *)
(*                 left, after more base facts (prog.edb2) were added:     *)
(*                 incremental evaluation.  Its result is the model of all *)
(*                 base facts for positive programs (T01i); with negation  *)
(*                 or aggregation facts derived earlier may be stale, and  *)
(*                 nothing is claimed.                                     *)
(* The order in which strata, rules and predicates are visited comes from  *)
(* Go map iteration; here it is nondeterministic choice.                   *)
(***************************************************************************)
EXTENDS Semantics

CONSTANTS MergeTiming, TmpName, DoFeedback,
          Programs      \* set of [rules |-> set of clauses, edb |-> set of facts, limit |-> Nat]

VARIABLES prog,      \* the program being evaluated
          store,     \* all facts known so far
          delta,     \* facts first derived in the previous round
          todo,      \* strata (sets of predicates) not yet evaluated
          cur,       \* [preds, plain, dos] of the stratum being evaluated
          phase, round, created, outcome,
          doDone,    \* the do-transforms of the current stratum have been applied
          pass       \* 1: first evaluation, 2: incremental re-evaluation after adding prog.edb2
vars == <<prog, store, delta, todo, cur, phase, round, created, outcome, doDone, pass>>

---------------------------------------------------------------------------
\* (SCCs, ReadyComp: see Semantics.tla)
---------------------------------------------------------------------------
\* rewrite.Rewrite: a do-rule whose body is not a single positive atom is split.
SortedVars(c) == SetToSeq(BodyVars(c))   \* any fixed order (rewrite.makeHead sorts by hash)
NeedsTmp(c) == IsDo(c) /\ ~(Len(c.b) = 1 /\ c.b[1][1] = "pos")
TmpPred(c, idx) == IF TmpName = "fresh" THEN c.h.p \o "__tmp" \o ToString(idx) ELSE c.h.p \o "__tmp1"
TmpAtom(c, idx) == [p |-> TmpPred(c, idx), a |-> [i \in DOMAIN SortedVars(c) |-> Var(SortedVars(c)[i])]]

\* the rules of one stratum after rewriting; idx numbers the do-rules (map order: any numbering)
Rewritten(rs) ==
  LET dos == {r \in rs : NeedsTmp(r)}
      num == CHOOSE f \in [dos -> 1..Cardinality(dos)] : \A a, b \in dos : a # b => f[a] # f[b]
  IN [plain |-> {r \in rs : ~IsDo(r)} \cup {[h |-> TmpAtom(r, num[r]), b |-> r.b, t |-> <<"none">>] : r \in dos},
      dos   |-> {r \in rs : IsDo(r) /\ ~NeedsTmp(r)}
                \cup {[h |-> r.h, b |-> <<<<"pos", TmpAtom(r, num[r])>>>>, t |-> r.t] : r \in dos},
      orig  |-> {r \in rs : ~IsDo(r)}]

---------------------------------------------------------------------------
\* makeSingleDeltaRule: premise i is matched against the delta, all others against the store.
RECURSIVE SolveDelta(_, _, _, _, _, _)
SolveDelta(body, order, S, I, D, di) ==
  IF order = <<>> \/ S = {} THEN S
  ELSE LET i == Head(order) IN
       SolveDelta(body, Tail(order),
                  UNION {Sols(body[i], s, IF i = di THEN D ELSE I) : s \in S}, I, D, di)

DeltaPositions(c, preds) == {i \in DOMAIN c.b : c.b[i][1] = "pos" /\ c.b[i][2].p \in preds}
DeriveDelta(c, i, I, D) ==
  LET sols == SolveDelta(c.b, Schedule(c.b, DOMAIN c.b, {}), {NoSub}, I, D, i) IN
  CASE c.t[1] = "let" -> {Inst(c.h, ApplyLets(c.t[2], 1, s)) : s \in sols}
    [] OTHER -> {Inst(c.h, s) : s \in sols}

---------------------------------------------------------------------------
Init == /\ prog \in Programs
        /\ store = {} /\ delta = {} /\ todo = {} /\ cur = [preds |-> {}, plain |-> {}, dos |-> {}, orig |-> {}]
        /\ phase = "load" /\ round = 0 /\ created = 0 /\ outcome = "running" /\ doDone = FALSE /\ pass = 1

LoadFacts == /\ phase = "load"
             /\ store' = prog.edb
             /\ todo' = SCCs(prog.rules)
             /\ phase' = "next"
             /\ UNCHANGED <<pass, prog, delta, cur, round, created, outcome, doDone>>

BeginStratum ==
  /\ phase = "next" /\ todo # {}
  /\ \E c \in todo :
       /\ ReadyComp(prog.rules, c, HeadPreds(prog.rules) \ UNION todo)
       /\ cur' = [preds |-> c] @@ Rewritten({r \in prog.rules : r.h.p \in c})
       /\ todo' = todo \ {c}
  /\ phase' = "first" /\ round' = 0 /\ delta' = {} /\ doDone' = FALSE
  /\ UNCHANGED <<pass, prog, store, created, outcome>>

FirstRound ==
  /\ phase = "first"
  /\ delta' = UNION {Derive(r, store) : r \in cur.plain}
  /\ phase' = IF delta' = {} THEN "do" ELSE "merge0"   \* the code enters the incremental loop only with a non-empty delta
  /\ UNCHANGED <<pass, prog, store, todo, cur, round, created, outcome, doDone>>

Merge0 ==
  /\ phase = "merge0"
  /\ store' = store \cup delta
  /\ created' = created + Cardinality(delta \ store)
  /\ phase' = "delta"
  /\ UNCHANGED <<pass, prog, delta, todo, cur, round, outcome, doDone>>

DeltaRound ==
  /\ phase = "delta"
  /\ LET new == (UNION {UNION {DeriveDelta(r, i, store, delta) : i \in DeltaPositions(r, cur.preds)} : r \in cur.orig})
                 \ (store \cup delta)
         \* only rules r with some delta position contribute
     IN /\ delta' = new
        /\ store' = IF MergeTiming = "eager" THEN store \cup new ELSE store \cup delta
        /\ created' = created + Cardinality(new)
        /\ phase' = IF new # {} THEN "delta" ELSE IF doDone THEN "next" ELSE "do"
  /\ round' = round + 1
  /\ UNCHANGED <<pass, prog, todo, cur, outcome, doDone>>

\* do-transforms run once per stratum, after the fixpoint of its plain rules; what they add is
\* the delta of further incremental rounds ("rerun"), after which the stratum is finished
DoPhase ==
  /\ phase = "do" /\ ~doDone
  /\ LET base == store \cup delta
         new == (UNION {Aggregate(r, base) : r \in cur.dos}) \ base IN
     /\ store' = base \cup new
     /\ created' = created + Cardinality(new)
     /\ doDone' = TRUE
     /\ IF DoFeedback = "rerun" /\ new # {}
        THEN delta' = new /\ phase' = "delta"
        ELSE delta' = delta /\ phase' = "next"
  /\ UNCHANGED <<pass, prog, todo, cur, round, outcome>>

Finish ==
  /\ phase = "next" /\ todo = {}
  /\ phase' = "done" /\ outcome' = "ok"
  /\ UNCHANGED <<pass, prog, store, delta, todo, cur, round, created, doDone>>

\* WithCreatedFactLimit: the run may stop with an error once more than limit facts were created
LimitTrip ==
  /\ phase \in {"delta", "merge0", "do"} /\ prog.limit > 0 /\ created > prog.limit
  /\ phase' = "done" /\ outcome' = "limit_err"
  /\ UNCHANGED <<pass, prog, store, delta, todo, cur, round, created, doDone>>

Edb2(p) == IF "edb2" \in DOMAIN p THEN p.edb2 ELSE {}
Resume ==
  /\ phase = "done" /\ outcome = "ok" /\ pass = 1 /\ Edb2(prog) # {}
  /\ store' = store \cup Edb2(prog)
  /\ todo' = SCCs(prog.rules)
  /\ phase' = "next" /\ outcome' = "running" /\ pass' = 2 /\ delta' = {}
  /\ UNCHANGED <<prog, cur, round, created, doDone>>

Next == LoadFacts \/ BeginStratum \/ FirstRound \/ Merge0 \/ DeltaRound \/ DoPhase \/ Finish \/ LimitTrip \/ Resume
Spec == Init /\ [][Next]_vars

---------------------------------------------------------------------------
AllTmpPreds == {TmpPred(r, i) : r \in prog.rules, i \in 1..Cardinality(prog.rules)}
Visible(S) == {f \in S : f.p \notin AllTmpPreds}

\* T01: a run that ends without error holds exactly the stratified least model
T01 == (phase = "done" /\ outcome = "ok" /\ pass = 1) =>
          Visible(store) = StratifiedModel(prog.rules, prog.edb)
\* T01i: incremental re-evaluation of a positive program ends with the model of all base facts
Positive(rs) == \A r \in rs : ~IsDo(r) /\ \A i \in DOMAIN r.b : r.b[i][1] # "neg"
T01i == (phase = "done" /\ outcome = "ok" /\ pass = 2 /\ Positive(prog.rules)) =>
          Visible(store) = StratifiedModel(prog.rules, prog.edb \cup Edb2(prog))
\* the invariant the delta rules rely on (false for "lagging" from the second round on)
DeltaInv == phase = "delta" => delta \subseteq store
\* soundness holds in every state, for every variant
Sound == pass = 1 => Visible(store) \subseteq StratifiedModel(prog.rules, prog.edb)
\* T17 (spec level): an "ok" outcome is never a truncated model; created facts are counted
T17 == (phase = "done" /\ outcome = "limit_err") => created > prog.limit
=============================================================================
