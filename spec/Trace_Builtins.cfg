INIT Init
NEXT Next
INVARIANT Accepted
CHECK_DEADLOCK FALSE
