INIT Init
NEXT Next
CONSTANT Mode = "ring"
INVARIANTS Emit T07
CHECK_DEADLOCK FALSE
