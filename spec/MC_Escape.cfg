INIT Init
NEXT Next
CONSTANTS
  CRMode = "hex"
  MaxLen = 3
INVARIANTS Inv Emit
CHECK_DEADLOCK FALSE
