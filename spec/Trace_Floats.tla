----------------------------- MODULE Trace_Floats -----------------------------
(***************************************************************************)
(* Direction B for the float part of C09: each line is one float constant  *)
(* with the characters Constant.String printed for it, alone and inside a  *)
(* list and an atom, the decimal value v = [neg, ds, e] it has (given by   *)
(* TLC for the generated scope, by the shortest-digits form for random bit *)
(* patterns) and what the library's parser made of the printed text.       *)
(*   NOT_A_FLOAT_TOKEN        the text is not one FLOAT token of the lexer *)
(*   TEXT_DENOTES_OTHER_VALUE the token denotes a different decimal value  *)
(*   PRINTED_FORM_DOES_NOT_PARSE / ROUNDTRIP_CHANGED_VALUE  the library's  *)
(*                            own parser disagrees                         *)
(* The exact characters are compared with FloatText!PrintF as drift only:   *)
(* another correct spelling would not break the property.                  *)
(***************************************************************************)
EXTENDS FloatText, Json, IOUtils
Trace == ndJsonDeserialize(IOEnv.TRACE)
VARIABLE l
V(e) == [neg |-> e.neg, ds |-> e.ds, e |-> e.e]
Init == l = 1
Check(e) ==
  /\ PrintT(<<"CLASS", e.id, IF e.e < -4 \/ e.e > 21 THEN "extreme" ELSE "plain">>)
  /\ IF ~IsFloatToken(e.chars) THEN PrintT(<<"MISMATCH", e.id, 0, "NOT_A_FLOAT_TOKEN", "null">>)
     ELSE /\ (Denote(e.chars) = Norm(V(e))) \/ PrintT(<<"MISMATCH", e.id, 0, "TEXT_DENOTES_OTHER_VALUE", ToJson(PrintF(V(e)))>>)
          /\ (e.chars = PrintF(V(e))) \/ PrintT(<<"DRIFT", e.id, ToJson(PrintF(V(e)))>>)
  /\ \A i \in DOMAIN e.rt :
       /\ (e.rt[i].err = "") \/ PrintT(<<"MISMATCH", e.id, i, "PRINTED_FORM_DOES_NOT_PARSE", "null">>)
       /\ (e.rt[i].err # "" \/ e.rt[i].equals) \/ PrintT(<<"MISMATCH", e.id, i, "ROUNDTRIP_CHANGED_VALUE", "null">>)
Next == l <= Len(Trace) /\ l' = l + 1 /\ Check(Trace[l])
Accepted == l = Len(Trace) + 1 => PrintT(<<"CONSUMED", Len(Trace)>>)
=============================================================================
