SPECIFICATION Spec
CONSTANTS
  Clauses <- SchedClauses
  Interp <- SchedInterp
INVARIANTS T04a T04b T04c
CHECK_DEADLOCK FALSE
