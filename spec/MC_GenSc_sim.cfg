SPECIFICATION Spec
CONSTANTS
  Universe <- U
  MaxFacts = 6
  Randomized = TRUE
INVARIANT Emit
CHECK_DEADLOCK FALSE
