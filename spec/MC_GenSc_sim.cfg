SPECIFICATION Spec
CONSTANTS
  Universe <- U
  Hot <- HotFacts
  MaxFacts = 6
  Randomized = TRUE
INVARIANT Emit
CHECK_DEADLOCK FALSE
