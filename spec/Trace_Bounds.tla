------------------------------ MODULE Trace_Bounds ----------------------------
(***************************************************************************)
(* Direction B for C11: each line is a program with declared bounds that   *)
(* went through AnalyzeAndCheckBounds(ErrorForBoundsMismatch); for the     *)
(* accepted ones every stored fact of a declared predicate carries the     *)
(* verdict of the library's own run-time check (CheckTypeBounds).          *)
(*   accepted and a fact fails its own declared bounds  => BOUNDS_VIOLATED *)
(* Types!Member gives a second, independent opinion (drift only).          *)
(***************************************************************************)
EXTENDS Types, Json, IOUtils
Trace == ndJsonDeserialize(IOEnv.TRACE)
VARIABLE l
\* a predicate may have several bound rows (alternatives): a fact conforms when some row admits it
Rows(c, pred) == IF pred = "src" THEN {c.t1} \cup (IF c.t1b = <<>> THEN {} ELSE {c.t1b})
                 ELSE IF pred = "dst" THEN {c.t2} \cup (IF c.t2b = <<>> THEN {} ELSE {c.t2b})
                 ELSE IF pred = "names" THEN {<<"ty", "/name">>} ELSE {<<"ty", "/any">>}
InBounds(c, pred, k) == \E t \in Rows(c, pred) : Member(t, k)
Init == l = 1
Next == /\ l <= Len(Trace) /\ l' = l + 1
        /\ LET c == Trace[l] IN
           /\ PrintT(<<"CLASS", c.id, c.outcome>>)
           /\ (c.outcome = "panic" => PrintT(<<"MISMATCH", c.id, 0, "PANIC", "null">>))
           /\ (c.outcome = "ok" =>
                 \A i \in DOMAIN c.stored :
                    /\ (c.stored[i].ok \/ PrintT(<<"MISMATCH", c.id, i, "BOUNDS_VIOLATED", ToJson(c.stored[i])>>))
                    /\ ((c.stored[i].ok = InBounds(c, c.stored[i].pred, c.stored[i].arg)) \/ PrintT(<<"DRIFT", c.id, i>>)))
Accepted == l = Len(Trace) + 1 => PrintT(<<"CONSUMED", Len(Trace)>>)
=============================================================================
