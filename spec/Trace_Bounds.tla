------------------------------ MODULE Trace_Bounds ----------------------------
(***************************************************************************)
(* Direction B for C11: each line is a program with declared bounds that   *)
(* went through AnalyzeAndCheckBounds(ErrorForBoundsMismatch); for the     *)
(* accepted ones every stored fact of a declared predicate carries the     *)
(* verdict of the library's own run-time check (CheckTypeBounds).          *)
(*   accepted and a fact fails its own declared bounds  => BOUNDS_VIOLATED *)
(* Types!Member gives a second, independent opinion (drift only).          *)
(***************************************************************************)
EXTENDS Types, Json, IOUtils
Trace == ndJsonDeserialize(IOEnv.TRACE)
VARIABLE l
BoundOf(c, pred) == IF pred = "src" THEN c.t1 ELSE IF pred = "dst" THEN c.t2 ELSE <<"ty", "/any">>
Init == l = 1
Next == /\ l <= Len(Trace) /\ l' = l + 1
        /\ LET c == Trace[l] IN
           /\ PrintT(<<"CLASS", c.id, c.outcome>>)
           /\ (c.outcome = "panic" => PrintT(<<"MISMATCH", c.id, 0, "PANIC", "null">>))
           /\ (c.outcome = "ok" =>
                 \A i \in DOMAIN c.stored :
                    /\ (c.stored[i].ok \/ PrintT(<<"MISMATCH", c.id, i, "BOUNDS_VIOLATED", ToJson(c.stored[i])>>))
                    /\ ((c.stored[i].ok = Member(BoundOf(c, c.stored[i].pred), c.stored[i].arg)) \/ PrintT(<<"DRIFT", c.id, i>>)))
Accepted == l = Len(Trace) + 1 => PrintT(<<"CONSUMED", Len(Trace)>>)
=============================================================================
