----------------------------- MODULE MC_Coalesce ------------------------------
(* T13c: the constructive coalescing used by the coalesce-first temporal evaluation family (TemporalStore!CoalesceDB)
   satisfies the property-level description CoalesceOK (instants unchanged, finite intervals separated), for every
   database of <= 3 intervals of one atom and <= 2 of another over the grid 0..4 plus half-unbounded and eternal ones;
   and it is idempotent.                                                                                            *)
EXTENDS TemporalStore
VARIABLE done
A1 == [p |-> "tb", a |-> <<<<"c", "/a">>>>]
A2 == [p |-> "tb", a |-> <<<<"c", "/b">>>>]
Raw == {<<lo, hi>> \in (0..4) \X (0..4) : lo <= hi} \cup {<<NEG, 2>>, <<2, POS>>, <<NEG, POS>>}
Sub3 == {{}} \cup {{x} : x \in Raw} \cup {{x, y} : x \in Raw, y \in Raw} \cup {{x, y, z} : x \in Raw, y \in Raw, z \in {<<0, 1>>, <<1, 3>>, <<2, 2>>, <<3, 4>>, <<NEG, 2>>}}
DBs == {{<<A1, x>> : x \in s} \cup t : s \in Sub3, t \in {{}, {<<A2, <<1, 2>>>>, <<A2, <<2, 4>>>>}}}
T13c == \A db \in DBs : CoalesceOK(db, CoalesceDB(db, 1)) /\ CoalesceDB(CoalesceDB(db, 1), 1) = CoalesceDB(db, 1) /\ CoalesceDB(CoalesceDB(db, 0), 0) = CoalesceDB(db, 0)
Init == done = FALSE
Next == ~done /\ done' = TRUE
=============================================================================
