----------------------------- MODULE TemporalHist -----------------------------
(* Direction A for C13: TemporalStore.tla as a machine whose behaviours are insertion/query histories. *)
EXTENDS TemporalStore, Json, SequencesExt
CONSTANTS TAtoms, TIvs, TPats, Points, MaxLen, Randomized
VARIABLES h
Ops == {[ev |-> "add", a |-> a, iv |-> iv] : a \in TAtoms, iv \in TIvs}
       \cup {[ev |-> "at", pat |-> p, t |-> t] : p \in TPats, t \in Points}
       \cup {[ev |-> "during", pat |-> p, iv |-> iv] : p \in TPats, iv \in {x \in TIvs : x[1] <= x[2]}}
       \cup {[ev |-> "all", pat |-> p] : p \in TPats}
       \cup {[ev |-> "has", a |-> a, t |-> t] : a \in TAtoms, t \in Points}
       \cup {[ev |-> "count"]} \cup {[ev |-> "coalesce", pred |-> <<"ta", 1>>], [ev |-> "coalesce", pred |-> <<"tb", 1>>]}
Adds == {o \in Ops : o.ev = "add"}
Init == h = <<>>
Do == /\ Len(h) < MaxLen
      /\ \E op \in (IF Randomized
                    THEN {RandomElement({o \in (IF RandomElement(1..(2 + 0 * Len(h))) = 1 THEN Adds ELSE Ops) : Len(h) >= 0})}
                    ELSE Adds) : h' = Append(h, op)
Next == Do
Emit == (Len(h) > 0 /\ (~Randomized \/ Len(h) = MaxLen)) => PrintT(<<"CASE", ToJson([ops |-> h])>>)
=============================================================================
